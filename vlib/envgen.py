"""Seeded generator of chalk programs with *implied bounds*: traits with where-clauses
(supertraits = bounds on Self, and bounds on the trait's own parameters), structs with
where-clauses and fields, impls with where-clauses; goals `forall<..> { if (hyps) { G } }`
over the predicates Implemented / FromEnv / WellFormed.  Used by C06, C13, C21.

Everything is rendered BOTH as `.chalk` text (real parser / lowering) and as sx values for the
Coq model `Chalk.Rules.EnvElab` (`decls`, goals of `Chalk.Logic.Program`).

Abstract syntax (tuples; types are proggen types `("adt", name, args) | ("var", k) | ("ph", k)`):

  atom ::= ("impl", trait, (ty, ...))      T: Tr<P..>            (Self first)
         | ("fe",   trait, (ty, ...))      FromEnv(T: Tr<P..>)
         | ("wf",   trait, (ty, ...))      WellFormed(T: Tr<P..>)
         | ("fety", ty)                    FromEnv(ty)
         | ("wfty", ty)                    WellFormed(ty)
  goal ::= ("atom", atom) | ("and", (goal, ...)) | ("not", goal) | ("if", (hyp, ...), goal)
         | ("forall", (k, ...), goal) | ("exists", (k, ...), goal)
  hyp  ::= (atom, (atom, ...))             head :- body    (a fact when the body is empty;
                                           chalk turns a fact `T: Tr` into FromEnv(T: Tr))

  EProg.traits : [ETrait(name, nextra, wcs, flags)]   wcs: ("impl", tr, args) over var 0 = Self, var k = k-th parameter
  EProg.adts   : [EAdt(name, nparams, wcs, fields)]   wcs / fields over var 0..nparams-1
  EProg.impls  : [proggen.Impl(nvars, (trait, args), [(trait, args) ...])]
"""
from __future__ import annotations

import itertools

from . import sx
from . import proggen as pg
from .proggen import adt, var

FETY, WFTY = 4000, 4001


class ETrait(pg.Trait):
    def __init__(self, name, nextra=0, wcs=(), flags=()):
        super().__init__(name, nextra, flags)
        self.wcs = list(wcs)


class EAdt(pg.Adt):
    def __init__(self, name, nparams=0, wcs=(), fields=()):
        super().__init__(name, nparams, "struct", [list(fields)])
        self.wcs = list(wcs)


class EProg(pg.Prog):
    def copy(self):
        p = EProg([EAdt(a.name, a.nparams, list(a.wcs), list(a.variants[0])) for a in self.adts],
                  [ETrait(t.name, t.nextra, list(t.wcs), t.flags) for t in self.traits],
                  [pg.Impl(i.nvars, i.head, list(i.wcs), i.positive) for i in self.impls], self.shape)
        for new, old in list(zip(p.adts, self.adts)) + list(zip(p.traits, self.traits)) + list(zip(p.impls, self.impls)):
            new.upstream = getattr(old, "upstream", False)       # `#[upstream]`: declared in another crate
        p.order = list(self.order)
        for k in ("tops", "leafs"):
            if hasattr(self, k):
                setattr(p, k, list(getattr(self, k)))
        return p


def impl_atom(tr, *args):
    return ("impl", tr, tuple(args))


# ---------------------------------------------------------------------------------------
# text
# ---------------------------------------------------------------------------------------

def _tvar(k):
    return "Self" if k == 0 else "P%d" % (k - 1)


def _ivar(k):
    return "T%d" % k


def _gvar(k):
    return "X%d" % k


def atom_text(a, vname):
    k = a[0]
    if k in ("impl", "fe", "wf"):
        s = pg.atom_text((a[1], a[2]), vname)
        return s if k == "impl" else ("FromEnv(%s)" % s if k == "fe" else "WellFormed(%s)" % s)
    if k == "fety":
        return "FromEnv(%s)" % pg.ty_text(a[1], vname)
    if k == "wfty":
        return "WellFormed(%s)" % pg.ty_text(a[1], vname)
    raise ValueError(a)


def item_text(p: EProg, kind, i):
    item = {"adt": p.adts, "trait": p.traits, "impl": p.impls}[kind][i]
    return ("#[upstream] " if getattr(item, "upstream", False) else "") + _item_text(p, kind, i)


def _item_text(p: EProg, kind, i):
    if kind == "adt":
        a = p.adts[i]
        params = "<%s>" % ", ".join(_ivar(k) for k in range(a.nparams)) if a.nparams else ""
        wc = (" where " + ", ".join(atom_text(w, _ivar) for w in a.wcs)) if a.wcs else ""
        fs = ", ".join("f%d: %s" % (k, pg.ty_text(f, _ivar)) for k, f in enumerate(a.variants[0]))
        return "struct %s%s%s { %s }" % (a.name, params, wc, fs)
    if kind == "trait":
        t = p.traits[i]
        attrs = "".join("#[%s] " % f for f in sorted(t.flags))
        params = "<%s>" % ", ".join("P%d" % k for k in range(t.nextra)) if t.nextra else ""
        wc = (" where " + ", ".join(atom_text(w, _tvar) for w in t.wcs)) if t.wcs else ""
        return "%strait %s%s%s { }" % (attrs, t.name, params, wc)
    return pg.item_text(p, kind, i)


def to_text(p: EProg) -> str:
    return "\n".join(item_text(p, k, i) for k, i in p.order)


def hyp_text(h):
    head, body = h
    s = atom_text(head, _gvar)
    if body:
        s += " :- " + ", ".join(atom_text(b, _gvar) for b in body)
    return s


def goal_text(g) -> str:
    k = g[0]
    if k == "atom":
        return atom_text(g[1], _gvar)
    if k == "and":
        return ", ".join(("(%s)" % goal_text(x)) if x[0] == "and" else goal_text(x) for x in g[1])
    if k == "not":
        return "not { %s }" % goal_text(g[1])
    if k == "if":
        return "if (%s) { %s }" % ("; ".join(hyp_text(h) for h in g[1]), goal_text(g[2]))
    if k in ("forall", "exists"):
        return "%s<%s> { %s }" % (k, ", ".join(_gvar(v) for v in g[1]), goal_text(g[2]))
    raise ValueError(g)


# ---------------------------------------------------------------------------------------
# model (Chalk.Rules.EnvElab)
# ---------------------------------------------------------------------------------------

def atom_model(a, st, venv):
    k = a[0]
    if k in ("impl", "fe", "wf"):
        off = {"impl": 0, "fe": 1000, "wf": 2000}[k]
        return ("tapp", st["trait:" + a[1]] + off, [pg.ty_model(t, st, venv) for t in a[2]])
    if k == "fety":
        return ("tapp", FETY, [pg.ty_model(a[1], st, venv)])
    if k == "wfty":
        return ("tapp", WFTY, [pg.ty_model(a[1], st, venv)])
    raise ValueError(a)


def to_decls(p: EProg):
    """sx value of Coq type `decls`."""
    st = p.symtab()
    ident = lambda k: k
    traits = []
    for t in p.traits:
        ref = ("impl", t.name, tuple(var(k) for k in range(1 + t.nextra)))
        traits.append(("mkTrait", atom_model(ref, st, ident), [atom_model(w, st, ident) for w in t.wcs]))
    adts = []
    for a in p.adts:
        self_ty = ("adt", a.name, tuple(var(k) for k in range(a.nparams)))
        adts.append(("mkAdt", pg.ty_model(self_ty, st, ident), [atom_model(w, st, ident) for w in a.wcs],
                     [pg.ty_model(f, st, ident) for f in a.variants[0]]))
    impls = [("mkClause", atom_model(("impl",) + tuple(c.head), st, ident),
              [atom_model(("impl",) + tuple(w), st, ident) for w in c.wcs]) for c in p.impls if c.positive]
    co = [st["trait:" + t.name] for t in p.traits if t.coinductive]
    return ("mkDecls", traits, adts, impls, co)


def goal_model(g, st, scope=()):
    """scope: tuple of variable ids, innermost LAST (de Bruijn index = distance from the end)."""
    def venv(k):
        for d, v in enumerate(reversed(scope)):
            if v == k:
                return d
        raise KeyError("unbound goal variable %r" % (k,))
    kind = g[0]
    if kind == "atom":
        return ("GAtom", atom_model(g[1], st, venv))
    if kind == "and":
        gs = [goal_model(x, st, scope) for x in g[1]]
        out = gs[-1]
        for x in reversed(gs[:-1]):
            out = ("GAnd", x, out)
        return out
    if kind == "not":
        return ("GNot", goal_model(g[1], st, scope))
    if kind == "if":
        return ("GIf", hyps_model(g[1], st, scope), goal_model(g[2], st, scope))
    if kind in ("forall", "exists"):
        inner = goal_model(g[2], st, scope + tuple(g[1]))
        for _ in g[1]:
            inner = ("GForall" if kind == "forall" else "GExists", inner)
        return inner
    raise ValueError(g)


def hyps_model(hs, st, scope):
    """Hypotheses the way chalk lowers them: a fact `T: Tr` becomes FromEnv(T: Tr)
    (`into_from_env_clause`), a conditional clause is kept as it is."""
    def venv(k):
        for d, v in enumerate(reversed(scope)):
            if v == k:
                return d
        raise KeyError(k)
    out = []
    for head, body in hs:
        if not body and head[0] == "impl":
            head = ("fe",) + tuple(head[1:])
        out.append(("mkHyp", sx.Nat(0), ("mkClause", atom_model(head, st, venv), [atom_model(b, st, venv) for b in body])))
    return out


def split_if_goal(g):
    """`forall<vs> { if (hs) { body } }` -> (vs, hs, body); a goal without hypotheses gives hs = ()."""
    vs = ()
    while g[0] == "forall":
        vs += tuple(g[1])
        g = g[2]
    if g[0] == "if":
        return vs, g[1], g[2]
    return vs, (), g


def rho_model(vs):
    """Placeholders for the peeled forall variables: the first variable is the outermost =
    highest de Bruijn index, so rho (innermost first) = reversed; variable j gets TPh j."""
    return [("TPh", j) for j in reversed(range(len(vs)))]


# ---------------------------------------------------------------------------------------
# program shapes
# ---------------------------------------------------------------------------------------

def _consts(n):
    return [EAdt("S%d" % i) for i in range(n)]


def _tr(i):
    return "Tr%d" % i


def _sup(i):
    """where Self: Tr_i"""
    return impl_atom(_tr(i), var(0))


def _std_adts(rng):
    """constants S0..S2, W<T> { f: T }, and a bounded struct B<T> where T: Tr_k (added by the caller)"""
    return _consts(3) + [EAdt("W", 1, [], [var(0)])]


def _base_impls(rng, traits, adts, density=0.5):
    """ground impls for constants that RESPECT the supertrait bounds with probability `sound`,
    plus a structural impl for W."""
    impls = []
    consts = [a for a in adts if a.nparams == 0]
    for t in traits:
        if t.nextra:
            continue
        for a in consts:
            if rng.random() < density:
                impls.append(pg.Impl(0, (t.name, (adt(a.name),))))
    return impls


def shape_chain(rng):
    n = rng.randint(2, 5)
    traits = [ETrait(_tr(0))] + [ETrait(_tr(i), 0, [_sup(i - 1)]) for i in range(1, n)]
    adts = _std_adts(rng) + [EAdt("B", 1, [impl_atom(_tr(rng.randrange(n)), var(0))], [var(0)])]
    impls = _base_impls(rng, traits, adts)
    k = rng.randrange(n)
    impls.append(pg.Impl(1, (_tr(k), (adt("W", var(0)),)), [(_tr(rng.randrange(n)), (var(0),))]))
    return EProg(adts, traits, impls, "chain")


def shape_diamond(rng):
    traits = [ETrait(_tr(0)), ETrait(_tr(1), 0, [_sup(0)]), ETrait(_tr(2), 0, [_sup(0)]),
              ETrait(_tr(3), 0, [_sup(1), _sup(2)])]
    if rng.random() < 0.5:
        traits.append(ETrait(_tr(4), 0, [_sup(3)]))
    adts = _std_adts(rng) + [EAdt("B", 1, [impl_atom(_tr(rng.randrange(len(traits))), var(0))], [var(0)])]
    impls = _base_impls(rng, traits, adts)
    impls.append(pg.Impl(1, (_tr(0), (adt("W", var(0)),)), [(_tr(rng.randrange(len(traits))), (var(0),))]))
    return EProg(adts, traits, impls, "diamond")


def shape_cycle(rng):
    n = rng.randint(2, 3)
    traits = [ETrait(_tr(i), 0, [_sup((i + 1) % n)]) for i in range(n)]
    traits.append(ETrait(_tr(n)))
    if rng.random() < 0.6:
        traits[rng.randrange(n)].wcs.append(_sup(n))
    adts = _std_adts(rng) + [EAdt("B", 1, [impl_atom(_tr(rng.randrange(n + 1)), var(0))], [var(0)])]
    impls = _base_impls(rng, traits, adts)
    return EProg(adts, traits, impls, "cycle")


def shape_params(rng):
    """bounds on the trait's own parameters"""
    traits = [ETrait(_tr(0)), ETrait(_tr(1), 0, [_sup(0)]),
              ETrait(_tr(2), 1, [impl_atom(_tr(1), var(1))] + ([_sup(0)] if rng.random() < 0.5 else [])),
              ETrait(_tr(3), 1, [impl_atom(_tr(2), var(1), var(0))])]       # Tr3<P0> where P0: Tr2<Self>
    if rng.random() < 0.5:
        traits.append(ETrait(_tr(4), 2, [impl_atom(_tr(3), var(2), var(1)), impl_atom(_tr(0), var(0))]))
    adts = _std_adts(rng) + [EAdt("B", 1, [impl_atom(_tr(2), var(0), adt("S0"))], [var(0)])]
    impls = _base_impls(rng, traits, adts)
    impls.append(pg.Impl(0, (_tr(2), (adt("S0"), adt("S1")))))
    if rng.random() < 0.5:
        impls.append(pg.Impl(2, (_tr(2), (adt("W", var(0)), var(1))), [(_tr(2), (var(0), var(1)))]))
    return EProg(adts, traits, impls, "params")


def shape_structs(rng):
    """struct where-clauses, also on type expressions and nested"""
    traits = [ETrait(_tr(0)), ETrait(_tr(1), 0, [_sup(0)]), ETrait(_tr(2))]
    adts = _std_adts(rng) + [
        EAdt("B", 1, [impl_atom(_tr(1), var(0))], [var(0)]),
        EAdt("C", 1, [impl_atom(_tr(2), adt("W", var(0)))], [adt("W", var(0))]),
        EAdt("D", 2, [impl_atom(_tr(1), var(0)), impl_atom(_tr(2), var(1))], [adt("B", var(0)), var(1)]),
    ]
    if rng.random() < 0.5:
        adts.append(EAdt("E", 1, [impl_atom(_tr(2), adt("B", var(0)))], []))
    impls = _base_impls(rng, traits, adts)
    impls.append(pg.Impl(1, (_tr(2), (adt("W", var(0)),)), [(_tr(0), (var(0),))]))
    if rng.random() < 0.5:
        impls.append(pg.Impl(1, (_tr(2), (adt("B", var(0)),)), []))
    return EProg(adts, traits, impls, "structs")


def shape_random(rng):
    nt = rng.randint(2, 5)
    traits = []
    for i in range(nt):
        nextra = 1 if rng.random() < 0.25 else 0
        wcs = []
        for _ in range(rng.choice([0, 1, 1, 2])):
            j = rng.randrange(nt)
            tj_extra = None  # filled below once all traits exist
            wcs.append((j, rng.randrange(1 + nextra)))
        traits.append((nextra, wcs))
    out = []
    for i, (nextra, wcs) in enumerate(traits):
        ws = []
        for j, subj in wcs:
            nj = traits[j][0]
            args = [var(subj)] + [var(rng.randrange(1 + nextra)) if rng.random() < 0.7 else adt("S0") for _ in range(nj)]
            w = impl_atom(_tr(j), *args)
            if w not in ws:
                ws.append(w)
        out.append(ETrait(_tr(i), nextra, ws))
    adts = _std_adts(rng)
    t = rng.choice(out)
    adts.append(EAdt("B", 1, [impl_atom(t.name, *([var(0)] + [adt("S0")] * t.nextra))], [var(0)]))
    impls = _base_impls(rng, out, adts, 0.4)
    for _ in range(rng.randint(0, 2)):
        t = rng.choice(out)
        u = rng.choice(out)
        impls.append(pg.Impl(1 + t.nextra, (t.name, tuple([adt("W", var(0))] + [var(1 + k) for k in range(t.nextra)])),
                             [(u.name, tuple([var(0)] + [adt("S1")] * u.nextra))]))
    return EProg(adts, out, impls, "random")



def shape_selfref(rng):
    """where-clauses that name the SAME trait with permuted / other arguments, on Self and on the
    trait's own parameters (each gives a non-tautological implied-bound rule)"""
    traits = [ETrait(_tr(0))]
    pool = [
        lambda n: ETrait(n, 1, [impl_atom(n, var(1), var(0))]),                              # Conv<P0> where P0: Conv<Self>
        lambda n: ETrait(n, 2, [impl_atom(n, var(0), var(2), var(1))]),                      # Sym<P0,P1> where Self: Sym<P1,P0>
        lambda n: ETrait(n, 1, [impl_atom(n, var(0), adt("S0"))]),                           # Dflt<P0> where Self: Dflt<S0>
        lambda n: ETrait(n, 1, [impl_atom(n, var(1), var(0)), _sup(0)]),                     # Conv + supertrait
        lambda n: ETrait(n, 2, [impl_atom(n, var(1), var(2), var(0))]),                      # Rot<P0,P1> where P0: Rot<P1,Self>
        lambda n: ETrait(n, 1, [impl_atom(n, var(1), var(1))]),                              # Diag<P0> where P0: Diag<P0>
    ]
    for k, mk in enumerate(rng.sample(pool, rng.randint(2, 3))):
        traits.append(mk(_tr(k + 1)))
    adts = _std_adts(rng) + [EAdt("B", 1, [impl_atom(traits[1].name, *([var(0)] + [adt("S1")] * traits[1].nextra))], [var(0)])]
    impls = []
    for t in traits[1:]:
        if rng.random() < 0.5:
            a = [adt(rng.choice(["S0", "S1"])) for _ in range(1 + t.nextra)]
            impls.append(pg.Impl(0, (t.name, tuple(a))))
    impls += _base_impls(rng, traits[:1], adts)
    return EProg(adts, traits, impls, "selfref")



def shape_branch(rng, exact=False):
    """branching supertrait hierarchy of depth >= 2 whose second-level bounds are DIFFERENT traits:
    A where Self: B, Self: D;  B where Self: C;  D where Self: E  (optionally a third branch / level).
    The trait declaration order (= trait ids) is random."""
    names = ["A", "B", "C", "D", "E"]
    sup = {"A": ["B", "D"], "B": ["C"], "C": [], "D": ["E"], "E": []}
    if not exact:
        if rng.random() < 0.5:
            names += ["F", "G"]
            sup["A"] = sup["A"] + ["F"]
            sup["F"] = ["G"]
            sup["G"] = []
        if rng.random() < 0.4:
            names.append("H")
            sup[rng.choice(["C", "E"])] = ["H"]
            sup["H"] = []
        if rng.random() < 0.3:
            sup["A"] = list(reversed(sup["A"]))
    order = list(names)
    if not exact:
        rng.shuffle(order)
    traits = [ETrait(n, 0, [impl_atom(m, var(0)) for m in sup[n]]) for n in order]
    adts = _std_adts(rng)
    leafs = [n for n in names if not sup[n]]
    impls = [pg.Impl(0, (n, (adt("S0"),))) for n in names if not exact and rng.random() < 0.5]
    p = EProg(adts, traits, impls, "branch")
    p.tops = ["A"] + [n for n in ("B", "D", "F") if n in names]
    p.leafs = leafs
    return p


def branch_goals(p, rng=None):
    """hypothesis on the top trait; conclusions: every trait, and conjunctions of second-level bounds"""
    vs = (1,)
    hs = ((("impl", "A", (var(1),)), ()),)
    at = lambda n: ("atom", ("impl", n, (var(1),)))
    out = [("forall", vs, ("if", hs, at(t.name))) for t in p.traits]
    leafs = getattr(p, "leafs", [])
    if len(leafs) >= 2:
        out.append(("forall", vs, ("if", hs, ("and", tuple(at(n) for n in leafs)))))
        out.append(("forall", vs, ("if", hs, ("and", (at(leafs[-1]), at(leafs[0]))))))
    out.append(("forall", vs, ("if", ((("impl", "B", (var(1),)), ()), (("impl", "D", (var(1),)), ())), ("and", (at("C"), at("E"))))))
    return out



def shape_deep(rng, param=None):
    """supertrait / parameter-bound chains of depth 9..14 (one elaboration round per level), linear
    with a side branch at a random level; declaration order shuffled.  Returns a program with
    `p.deep_goals`: the goals concluding every level from the hypothesis on the top trait."""
    n = rng.randint(9, 14)
    param = (rng.random() < 0.4) if param is None else param
    side_at = rng.randrange(2, n)
    traits = []
    for i in range(n + 1):
        if param:
            wcs = [impl_atom("L%d" % (i + 1), var(1), var(0))] if i < n else []       # Li<P0> where P0: L(i+1)<Self>
            if i == side_at:
                wcs.append(impl_atom("Side", var(1)))
            traits.append(ETrait("L%d" % i, 1, wcs))
        else:
            wcs = [impl_atom("L%d" % (i + 1), var(0))] if i < n else []
            if i == side_at:
                wcs.append(impl_atom("Side", var(0)))
            traits.append(ETrait("L%d" % i, 0, wcs))
    traits += [ETrait("Side", 0, [impl_atom("Side2", var(0))]), ETrait("Side2")]
    rng.shuffle(traits)
    adts = _std_adts(rng)
    impls = [pg.Impl(0, ("Side2", (adt("S0"),)))]
    p = EProg(adts, traits, impls, "deep-param" if param else "deep")
    goals = []
    if param:
        vs = (1, 2)
        hs = ((("impl", "L0", (var(1), var(2))), ()),)
        lvl = lambda k: ("impl", "L%d" % k, (var(1), var(2)) if k % 2 == 0 else (var(2), var(1)))
        side_subj = var(2) if side_at % 2 == 0 else var(1)
    else:
        vs = (1,)
        hs = ((("impl", "L0", (var(1),)), ()),)
        lvl = lambda k: ("impl", "L%d" % k, (var(1),))
        side_subj = var(1)
    for k in range(n + 1):
        goals.append(("forall", vs, ("if", hs, ("atom", lvl(k)))))
    goals.append(("forall", vs, ("if", hs, ("and", (("atom", lvl(n)), ("atom", lvl(n - 1)))))))
    goals.append(("forall", vs, ("if", hs, ("atom", ("impl", "Side2", (side_subj,))))))
    goals.append(("forall", vs, ("if", hs, ("atom", ("fe",) + lvl(n)[1:]))))
    if param:
        goals.append(("forall", vs, ("if", hs, ("atom", ("impl", "L%d" % n, (var(1), var(1)))))))      # not implied
    # hypothesis in the middle: only the levels below follow
    mid = n // 2
    hm = ((lvl(mid), ()),)
    goals.append(("forall", vs, ("if", hm, ("atom", lvl(n)))))
    goals.append(("forall", vs, ("if", hm, ("atom", lvl(mid - 1)))))
    p.deep_goals = goals
    return p


SHAPES = [shape_branch, shape_selfref, shape_chain, shape_diamond, shape_cycle, shape_params, shape_structs, shape_random, shape_random]


def gen_program(rng, shapes=None) -> EProg:
    return rng.choice(shapes or SHAPES)(rng)


def permute(p: EProg, rng) -> EProg:
    """items, where-clauses of impls, traits and structs in a different order"""
    q = p.copy()
    rng.shuffle(q.order)
    for im in q.impls:
        rng.shuffle(im.wcs)
    for t in q.traits:
        rng.shuffle(t.wcs)
    for a in q.adts:
        rng.shuffle(a.wcs)
    return q


# ---------------------------------------------------------------------------------------
# goals  forall<..> { if (hyps) { G } }
# ---------------------------------------------------------------------------------------

class IfGoalGen:
    def __init__(self, rng, p: EProg):
        self.rng, self.p = rng, p
        self.consts = [adt(a.name) for a in p.adts if a.nparams == 0]
        self.unary = [a for a in p.adts if a.nparams == 1]
        self.bounded = [a for a in p.adts if a.wcs]

    def ty(self, vs, depth=1):
        r = self.rng.random()
        if vs and r < 0.55:
            return var(self.rng.choice(vs))
        if r < 0.75 or depth <= 0 or not self.unary:
            return self.rng.choice(self.consts)
        a = self.rng.choice(self.unary)
        return adt(a.name, self.ty(vs, depth - 1))

    def trait_atom(self, vs, kind="impl", subject=None):
        t = self.rng.choice(self.p.traits)
        args = [subject if subject is not None else self.ty(vs)] + [self.ty(vs, 0) for _ in range(t.nextra)]
        return (kind, t.name, tuple(args))

    def bounded_ty(self, vs):
        a = self.rng.choice(self.bounded)
        return adt(a.name, *[self.ty(vs, 0) for _ in range(a.nparams)])

    def hyp(self, vs):
        r = self.rng.random()
        if r < 0.62:
            return (self.trait_atom(vs, "impl", var(self.rng.choice(vs)) if self.rng.random() < 0.8 else None), ())
        if r < 0.8 and self.bounded:
            return (("fety", self.bounded_ty(vs)), ())
        if r < 0.9:
            return (self.trait_atom(vs, "fe"), ())
        # conditional clause (stays an Implemented clause)
        return (self.trait_atom(vs, "impl"), (self.trait_atom(vs, "impl"),))

    def concl_atom(self, vs):
        r = self.rng.random()
        if r < 0.6:
            return self.trait_atom(vs, "impl")
        if r < 0.75:
            return self.trait_atom(vs, "fe")
        if r < 0.85:
            return self.trait_atom(vs, "wf")
        if r < 0.95 and self.bounded:
            return ("wfty", self.bounded_ty(vs))
        return ("fety", self.bounded_ty(vs)) if self.bounded else self.trait_atom(vs, "impl")

    def concl(self, vs, depth=1):
        r = self.rng.random()
        if r < 0.6 or depth <= 0:
            return ("atom", self.concl_atom(vs))
        if r < 0.85:
            return ("and", (("atom", self.concl_atom(vs)), ("atom", self.concl_atom(vs))))
        # (no `not`: chalk reads `forall<X> { not { G } }` as "there is no X with G" — negation is
        # not part of C06's goal language)
        h = (self.trait_atom(vs, "impl"), (self.trait_atom(vs, "impl"),))
        return ("if", (h,), ("atom", self.concl_atom(vs)))

    def if_goal(self, next_var=[0]):
        n = self.rng.choice([1, 1, 2])
        vs = tuple(range(1, n + 1))
        hs = tuple(self.hyp(vs) for _ in range(self.rng.choice([1, 1, 2, 3])))
        return ("forall", vs, ("if", hs, self.concl(vs)))

    def sweep(self, hs_vs=None):
        """hypothesis `X1: Tr` for one trait and the conclusion `X1: Tr'` for EVERY trait without
        parameters (plus FromEnv): the observable content of the elaboration."""
        vs = (1,)
        tops = getattr(self.p, "tops", None)
        t = self.p.trait(self.rng.choice(tops)) if tops and self.rng.random() < 0.8 else self.rng.choice(self.p.traits)
        args = [var(1)] + [self.ty(vs, 0) for _ in range(t.nextra)]
        hs = ((("impl", t.name, tuple(args)), ()),)
        out = []
        for u in self.p.traits:
            uargs = tuple([var(1)] + [self.ty(vs, 0) for _ in range(u.nextra)])
            kind = "impl" if self.rng.random() < 0.7 else "fe"
            out.append(("forall", vs, ("if", hs, ("atom", (kind, u.name, uargs)))))
        return out

    def conj_goals(self, n):
        """[(vs, hs, g1, g2)] for `forall<vs> { if (hs) { g1 }, g2 }`: g2 sits OUTSIDE the `if` and is
        something the hypotheses would give (the hypothesis itself, one of its consequences, or
        its negation when it is closed); the oracle evaluates it without them."""
        out = []
        unary = [t for t in self.p.traits if t.nextra == 0]
        for _ in range(n):
            closed = self.rng.random() < 0.35
            vs = () if closed else (1,)
            subj = self.rng.choice(self.consts) if closed else var(1)
            t = self.rng.choice(self.p.traits)
            h = ("impl", t.name, tuple([subj] + [self.ty(vs, 0) for _ in range(t.nextra)]))
            hs = ((h, ()),)
            if self.bounded and self.rng.random() < 0.25:
                a = self.rng.choice(self.bounded)
                hs = ((("fety", adt(a.name, *[subj for _ in range(a.nparams)])), ()),)
            r = self.rng.random()
            if r < 0.4 or not unary:
                g2 = ("atom", h)
            elif r < 0.8:
                g2 = ("atom", ("impl", self.rng.choice(unary).name, (subj,)))
            else:
                g2 = ("atom", ("fe",) + tuple(h[1:]))
            if closed and self.rng.random() < 0.4:
                g2 = ("not", g2)
            g1 = self.concl(vs, 0) if vs else ("atom", ("impl", self.rng.choice(unary or self.p.traits).name, (subj,))) if unary else ("atom", h)
            out.append((vs, hs, g1, g2))
        return out

    def sweep2(self):
        """for one trait WITH parameters: hypothesis `X1: T<X2..>` over distinct variables and, as
        conclusions, the same trait with every arrangement of those variables (and one constant),
        plus every parameter-free trait on each variable: what the implied bounds of the trait's
        own where-clauses (also self-referential ones) let us conclude, and what they do not."""
        ts = [t for t in self.p.traits if t.nextra]
        if not ts:
            return []
        t = self.rng.choice(ts)
        n = 1 + t.nextra
        vs = tuple(range(1, n + 1))
        hs = ((("impl", t.name, tuple(var(v) for v in vs)), ()),)
        out, seen = [], set()
        pool = [var(v) for v in vs] + [self.consts[0]]
        for args in itertools.product(pool, repeat=n):
            if len(out) >= 9:
                break
            if args in seen:
                continue
            seen.add(args)
            kind = "impl" if self.rng.random() < 0.75 else "fe"
            out.append(("forall", vs, ("if", hs, ("atom", (kind, t.name, tuple(args))))))
        for u in self.p.traits:
            if u.nextra == 0:
                for v in vs:
                    out.append(("forall", vs, ("if", hs, ("atom", ("impl", u.name, (var(v),))))))
        return out


def without_hyps(g):
    vs, hs, body = split_if_goal(g)
    return ("forall", vs, body) if vs else body


# ---------------------------------------------------------------------------------------
# bounded universe of ground types
# ---------------------------------------------------------------------------------------

def universe(p: EProg, depth=2, limit=60):
    return pg.universe(p, depth=depth, limit=limit)


def input_types(t):
    """InputTypes of wf.rs: every non-variable type occurring in t (including t)"""
    if t[0] != "adt":
        return []
    out = [t]
    for a in t[2]:
        out += input_types(a)
    return out


# ---------------------------------------------------------------------------------------
# programs for the well-formedness check (C21): coherent impl sets, sound or with a
# deliberately missing bound
# ---------------------------------------------------------------------------------------

def _ground_closure(p, atoms):
    """all ground trait refs required (transitively, through trait where-clauses) by `atoms`"""
    out, todo = [], list(atoms)
    while todo:
        a = todo.pop()
        if a in out:
            continue
        out.append(a)
        t = p.trait(a[0])
        m = {k: a[1][k] for k in range(len(a[1]))}
        for w in t.wcs:
            todo.append((w[1], tuple(pg.subst_ty(x, m) for x in w[2])))
    return out


def gen_wf_program(rng):
    """(program, info): a coherent program whose bounds are all met, or — info['missing'] — the
    same with exactly ONE bound deliberately dropped; optionally the circular pattern."""
    kind = rng.choice(["chain", "diamond", "params", "cycle", "chain", "diamond"])
    if kind == "chain":
        n = rng.randint(2, 4)
        traits = [ETrait(_tr(0))] + [ETrait(_tr(i), 0, [_sup(i - 1)]) for i in range(1, n)]
    elif kind == "diamond":
        traits = [ETrait(_tr(0)), ETrait(_tr(1), 0, [_sup(0)]), ETrait(_tr(2), 0, [_sup(0)]), ETrait(_tr(3), 0, [_sup(1), _sup(2)])]
    elif kind == "cycle":
        traits = [ETrait(_tr(0), 0, [_sup(1)]), ETrait(_tr(1), 0, [_sup(0)]), ETrait(_tr(2), 0, [_sup(0)] if rng.random() < 0.5 else [])]
    else:
        traits = [ETrait(_tr(0)), ETrait(_tr(1), 0, [_sup(0)]),
                  ETrait(_tr(2), 1, [impl_atom(_tr(1), var(1))] + ([_sup(0)] if rng.random() < 0.5 else []))]
    unary = [t for t in traits if t.nextra == 0]
    bound = rng.choice(unary)
    adts = _consts(3) + [EAdt("W", 1, [], [var(0)]), EAdt("B", 1, [impl_atom(bound.name, var(0))], [var(0)])]
    p = EProg(adts, traits, [], "wf-" + kind)
    muts = []          # (description, function applied to the finished program)

    def closure_names(tn):
        return [a[0] for a in _ground_closure(p, [(tn, tuple([adt("S0")] * (1 + p.trait(tn).nextra)))])]

    # ground impls: a closed set
    wanted = []
    for c in ("S0", "S1", "S2"):
        for t in traits:
            if rng.random() < 0.45:
                wanted.append((t.name, tuple([adt(c)] + [adt(rng.choice(["S0", "S1"])) for _ in range(t.nextra)])))
    closed = _ground_closure(p, wanted)
    for a in closed:
        p.impls.append(pg.Impl(0, a))
    for a in closed:
        if any(a in _ground_closure(p, [b])[1:] for b in closed if b != a):
            muts.append(("ground-impl %s" % atom_text(("impl",) + a, _ivar),
                         lambda q, a=a: q.impls.remove(next(i for i in q.impls if i.nvars == 0 and i.head == a))))
    # structural impls for W: a closed set of unary traits, each `impl<T> Tr for W<T> where T: Tr`
    if rng.random() < 0.7:
        k = rng.choice(unary)
        wset = [tn for tn in closure_names(k.name) if p.trait(tn).nextra == 0]
        for tn in wset:
            p.impls.append(pg.Impl(1, (tn, (adt("W", var(0)),)), [(tn, (var(0),))]))
            if p.trait(tn).wcs:
                muts.append(("where-clause of W impl of %s" % tn,
                             lambda q, tn=tn: setattr(next(i for i in q.impls if i.nvars == 1 and i.head == (tn, (adt("W", var(0)),))), "wcs", [])))
        for tn in wset[1:]:
            muts.append(("W impl of %s" % tn,
                         lambda q, tn=tn: q.impls.remove(next(i for i in q.impls if i.nvars == 1 and i.head == (tn, (adt("W", var(0)),))))))
    # impls for the bounded struct B<T> where T: bound — `T: bound` is an implied bound there
    bset = [tn for tn in closure_names(bound.name) if p.trait(tn).nextra == 0]
    if rng.random() < 0.6:
        for tn in bset:
            p.impls.append(pg.Impl(1, (tn, (adt("B", var(0)),)), [(tn, (var(0),))] if rng.random() < 0.4 else []))
        others = [t for t in unary if t.name not in bset and t.wcs]
        if others:
            o = rng.choice(others)
            muts.append(("impl of %s for B<T> (a supertrait is not implemented)" % o.name,
                         lambda q, o=o: q.impls.append(pg.Impl(1, (o.name, (adt("B", var(0)),)), []))))
    # a struct with a field of the bounded type
    if rng.random() < 0.7:
        stronger = rng.choice([t for t in unary if bound.name in closure_names(t.name)])
        p.adts.append(EAdt("C", 1, [impl_atom(stronger.name, var(0))], [adt("B", var(0)), var(0)]))
        muts.append(("where-clause of struct C", lambda q: setattr(q.adt("C"), "wcs", [])))
    # repeated field / where-clause types BEFORE the one that lacks its bound
    muts.append(("struct whose bounded field type follows a repeated field type",
                 lambda q: q.adts.append(EAdt("R", 1, [], [adt("W", var(0)), adt("W", var(0)), adt("B", var(0))]))))
    muts.append(("struct whose bounded field type follows a type repeated in a where-clause",
                 lambda q: q.adts.append(EAdt("R", 1, [impl_atom(unary[0].name, adt("W", var(0)))], [adt("W", var(0)), adt("B", var(0))]))))
    muts.append(("impl whose bounded where-clause type follows a repeated where-clause type",
                 lambda q: q.impls.append(pg.Impl(1, (unary[0].name, (adt("W", adt("W", adt("W", var(0)))),)),
                                                  [(unary[0].name, (adt("W", var(0)),)), (unary[0].name, (adt("W", var(0)),)),
                                                   (unary[0].name, (adt("B", var(0)),))]))))
    muts = muts + muts[-3:]
    if rng.random() < 0.3:
        # the sound counterpart: the bound is declared
        p.adts.append(EAdt("RS", 1, [impl_atom(bound.name, var(0))], [adt("W", var(0)), adt("W", var(0)), adt("B", var(0))]))
    ok_consts = [c for c in ("S0", "S1", "S2") if (bound.name, (adt(c),)) in closed]
    if ok_consts and rng.random() < 0.4:
        p.adts.append(EAdt("D", 0, [], [adt("B", adt(rng.choice(ok_consts)))]))
    bad_consts = [c for c in ("S0", "S1", "S2") if (bound.name, (adt(c),)) not in closed]
    if bad_consts:
        bad = adt("B", adt(bad_consts[0]))          # a CLOSED ill-formed type: B<T> where T: bound, and bad_consts[0] is not `bound`
        muts.append(("struct with a closed ill-formed field type",
                     lambda q: q.adts.append(EAdt("E", 0, [], [bad]))))
        muts.append(("parametric struct with a closed ill-formed field type",
                     lambda q: q.adts.append(EAdt("H", 1, [], [bad, var(0)]))))
        muts.append(("parametric struct with a closed ill-formed type nested in a field",
                     lambda q: q.adts.append(EAdt("H", 1, [], [adt("W", bad), adt("W", var(0))]))))
        muts.append(("struct where-clause about a closed ill-formed type",
                     lambda q: q.adts.append(EAdt("H", 1, [impl_atom(unary[0].name, bad)], [var(0)]))))
        muts.append(("impl where-clause about a closed ill-formed type",
                     lambda q: q.impls.append(pg.Impl(0, (unary[0].name, (adt("W", adt("W", adt("S0"))),)), [(unary[0].name, (bad,))]))))
        muts = muts + muts[-5:]                      # closed ill-formed types are as likely as all other drops together
    # the circular pattern (finding C21-wf-circular): a where-clause about a bounded type whose own
    # well-formedness is only implied by that where-clause
    if rng.random() < 0.25:
        p.traits.append(ETrait("Q", 1, [impl_atom(bound.name, var(1))]))           # trait Q<P0> where P0: bound
        p.impls.append(pg.Impl(1, ("Q", (adt("B", var(0)), var(0)))))                # impl<T> Q<T> for B<T>
        top = rng.choice(unary)
        p.adts.append(EAdt("V", 1, [], []))
        for tn in closure_names(top.name):
            if tn == top.name or p.trait(tn).nextra:
                continue
            p.impls.append(pg.Impl(1, (tn, (adt("V", var(0)),)), [(bound.name, (var(0),))]))
        p.impls.append(pg.Impl(1, (top.name, (adt("V", var(0)),)), [("Q", (adt("B", var(0)), var(0)))]))
        p.shape += "+circular"
    # where-clauses whose SELF / input type is an APPLIED type, made true by a blanket impl that does
    # not establish the applied type's own bounds: `impl<T> Mk for B<T> {}` is a legitimate impl (an
    # impl may assume its HEADER types well-formed), but a struct declaration may NOT assume the
    # types of its where-clauses well-formed: `struct F<T> where B<T>: Mk { f: B<T> }` needs `T: bound`.
    if rng.random() < 0.6:
        p.traits.append(ETrait("Mk"))
        p.impls.append(pg.Impl(1, ("Mk", (adt("B", var(0)),))))                      # impl<T> Mk for B<T>
        p.traits.append(ETrait("Cv", 1))
        p.impls.append(pg.Impl(2, ("Cv", (var(0), var(1)))))                          # impl<T, U> Cv<U> for T
        BT = adt("B", var(0))
        applied = [("struct where-clause on an applied type (B<T>: Mk) without the type's own bound",
                    lambda q: q.adts.append(EAdt("F", 1, [impl_atom("Mk", BT)], [BT]))),
                   ("struct where-clause on a nested applied type (W<B<T>>: Cv<T>) without the type's own bound",
                    lambda q: q.adts.append(EAdt("F", 1, [impl_atom("Cv", adt("W", BT), var(0))], [adt("W", BT), var(0)]))),
                   ("struct where-clause with an applied type as trait parameter (T: Cv<B<T>>) without the type's own bound",
                    lambda q: q.adts.append(EAdt("F", 1, [impl_atom("Cv", var(0), BT)], [BT]))),
                   ("two-parameter struct where-clause on an applied type (B<U>: Mk) without the type's own bound",
                    lambda q: q.adts.append(EAdt("F", 2, [impl_atom("Mk", adt("B", var(1)))], [var(0), adt("B", var(1))]))),
                   ("impl where-clause on an applied type (B<T>: Mk) that is not a header type",
                    lambda q: q.impls.append(pg.Impl(1, (unary[0].name, (adt("W", adt("W", adt("W", adt("W", var(0))))),)), [("Mk", (BT,))])))]
        muts = muts + applied + applied
        if rng.random() < 0.5:
            # sound counterparts: the applied type's bound is declared as well / the applied type is a header type
            p.adts.append(EAdt("FS", 1, [impl_atom("Mk", BT), impl_atom(bound.name, var(0))], [BT]))
            p.impls.append(pg.Impl(1, ("Mk", (adt("W", BT),)), [("Mk", (BT,))]))      # impl<T> Mk for W<B<T>> where B<T>: Mk
    missing = None
    if muts and rng.random() < 0.45:
        missing, f = rng.choice(muts)
        f(p)
    # `#[upstream]` items: an upstream impl / struct is WF-checked exactly like a local one (the
    # attribute only matters for the orphan rules: a local impl of an upstream trait would need a
    # local type, so impls of upstream traits are made upstream too)
    if rng.random() < 0.5:
        for t in p.traits:
            t.upstream = rng.random() < 0.25
        for a in p.adts:
            a.upstream = rng.random() < 0.25
        for im in p.impls:
            im.upstream = p.trait(im.head[0]).upstream or rng.random() < 0.35
        if missing:
            missing += " (with #[upstream] items)"
    p.order = ([("adt", i) for i in range(len(p.adts))] + [("trait", i) for i in range(len(p.traits))]
               + [("impl", i) for i in range(len(p.impls))])
    if rng.random() < 0.5:
        p = permute(p, rng)
    return p, {"missing": missing}


# ---------------------------------------------------------------------------------------
# Coq evaluation that survives a concurrent rebuild of a dependency (.vo files are shared
# between the builders' runs): rebuild our targets and retry once
# ---------------------------------------------------------------------------------------

def coq_codes_retry(ctx, tag, defs, exprs, imports, targets, shard=40):
    from . import core, logic
    for attempt in range(3):
        codes, failures = logic.coq_codes(ctx.work, tag, defs, exprs, shard=shard, imports=imports)
        if not failures:
            return codes
        if "inconsistent assumptions" in failures[0][1] or "Cannot find a physical path" in failures[0][1] or "bad version" in failures[0][1]:
            core.log("coq libraries changed under us; rebuilding %s and retrying" % (targets,))
            core.coq_make(targets)
            continue
        break
    raise core.CheckFailure("coq evaluation failed: %s" % (failures[0],))


# ---------------------------------------------------------------------------------------
# the witnesses of the recorded findings, as generator programs (always part of the runs)
# ---------------------------------------------------------------------------------------

def corpus_c06():
    """[(program, [goal ...])]"""
    out = []
    # C06-rec-ambiguous-bound: trait Tr4 {} trait Tr1<P> where Self: Tr4 {}; if (X: Tr1<S0>; X: Tr1<S1>) { X: Tr4 }
    p = EProg(_consts(2), [ETrait("Tr4"), ETrait("Tr1", 1, [impl_atom("Tr4", var(0))])], [], "corpus-rec-ambig")
    g = ("forall", (1,), ("if", ((("impl", "Tr1", (var(1), adt("S0"))), ()), (("impl", "Tr1", (var(1), adt("S1"))), ())),
                          ("atom", ("impl", "Tr4", (var(1),)))))
    g1 = ("forall", (1,), ("if", ((("impl", "Tr1", (var(1), adt("S0"))), ()),), ("atom", ("impl", "Tr4", (var(1),)))))
    out.append((p, [g, g1]))
    # branching two-level supertrait hierarchy: every second-level bound must be elaborated
    for exact_order in (["A", "B", "C", "D", "E"], ["A", "C", "D", "E", "B"], ["E", "D", "C", "B", "A"]):
        p = shape_branch(None, exact=True)
        p.traits = [p.trait(n) for n in exact_order]
        p.order = ([("adt", i) for i in range(len(p.adts))] + [("trait", i) for i in range(len(p.traits))])
        out.append((p, branch_goals(p)))
    # hypotheses must not reach a later (or earlier) conjunct: if (X: Foo) { W<X>: Bar }, X: Foo
    p = EProg(_consts(2) + [EAdt("W", 1, [], [var(0)])], [ETrait("Foo"), ETrait("Bar")],
              [pg.Impl(1, ("Bar", (adt("W", var(0)),)), [("Foo", (var(0),))]), pg.Impl(0, ("Foo", (adt("S1"),)))], "corpus-conj")
    hx = ((("impl", "Foo", (var(1),)), ()),)
    h0 = ((("impl", "Foo", (adt("S0"),)), ()),)
    out.append((p, [("conj", (1,), hx, ("atom", ("impl", "Bar", (adt("W", var(1)),))), ("atom", ("impl", "Foo", (var(1),)))),
                    ("conj", (), h0, ("atom", ("impl", "Bar", (adt("W", adt("S0")),))), ("atom", ("impl", "Foo", (adt("S0"),)))),
                    ("conj", (), h0, ("atom", ("impl", "Bar", (adt("W", adt("S0")),))), ("not", ("atom", ("impl", "Foo", (adt("S0"),))))),
                    ("conj", (), h0, ("atom", ("impl", "Bar", (adt("W", adt("S0")),))), ("atom", ("impl", "Foo", (adt("S1"),))))]))
    # a where-clause naming the trait itself with swapped arguments: trait Conv<P0> where P0: Conv<Self>
    p = EProg(_consts(2), [ETrait("Conv", 1, [impl_atom("Conv", var(1), var(0))]),
                           ETrait("Sym", 2, [impl_atom("Sym", var(0), var(2), var(1))])], [], "corpus-selfref")
    hyp = ((("impl", "Conv", (var(1), var(2))), ()),)
    hyp2 = ((("impl", "Sym", (var(1), var(2), adt("S0"))), ()),)
    out.append((p, [("forall", (1, 2), ("if", hyp, ("atom", ("impl", "Conv", (var(2), var(1)))))),
                    ("forall", (1, 2), ("if", hyp, ("atom", ("impl", "Conv", (var(1), var(1)))))),
                    ("forall", (1, 2), ("if", hyp2, ("atom", ("impl", "Sym", (var(1), adt("S0"), var(2)))))),
                    ("forall", (1, 2), ("if", hyp2, ("atom", ("impl", "Sym", (var(2), var(1), adt("S0"))))))]))
    # F7 within one query: WellFormed over a supertrait / parameter-bound cycle
    p = EProg(_consts(1), [ETrait("Tr0", 0, [impl_atom("Tr1", var(0))]), ETrait("Tr1", 0, [impl_atom("Tr3", var(0), adt("S0"))]),
                           ETrait("Tr2", 0, [impl_atom("Tr1", var(0)), impl_atom("Tr3", var(0), adt("S0"))]),
                           ETrait("Tr3", 1, [impl_atom("Tr0", var(0)), impl_atom("Tr2", var(1))])], [], "corpus-slg-cocycle")
    hyp = ((("impl", "Tr2", (var(1),)), ()),)
    out.append((p, [("forall", (1,), ("if", hyp, ("atom", ("wf", "Tr2", (var(1),))))),
                    ("forall", (1,), ("if", hyp, ("atom", ("wf", "Tr2", (adt("S0"),))))),
                    ("forall", (1,), ("if", hyp, ("atom", ("impl", "Tr0", (var(1),)))))]))
    return out


def corpus_c21():
    """the witness of C21-wf-circular (Rules/Wf.v WfExamples.Dh)"""
    p = EProg([EAdt("NotHash"), EAdt("Set", 1, [impl_atom("Hash", var(0))], []), EAdt("Vec", 1, [], [])],
              [ETrait("Hash"), ETrait("Bar", 1, [impl_atom("Hash", var(1))]), ETrait("Goo"), ETrait("Foo", 0, [impl_atom("Goo", var(0))])],
              [pg.Impl(1, ("Bar", (adt("Set", var(0)), var(0)))), pg.Impl(1, ("Goo", (adt("Vec", var(0)),)), [("Hash", (var(0),))]),
               pg.Impl(1, ("Foo", (adt("Vec", var(0)),)), [("Bar", (adt("Set", var(0)), var(0)))])], "corpus-wf-circular")
    out = [(p, {"missing": None})]
    # closed ill-formed field types: Set<K> where K: Hash, NotHash is not Hash
    base = lambda: ([EAdt("NotHash"), EAdt("Set", 1, [impl_atom("Hash", var(0))], [])], [ETrait("Hash")])
    a, t = base()
    out.append((EProg(a + [EAdt("Plain", 0, [], [adt("Set", adt("NotHash"))])], t, [], "corpus-closed-field"),
                {"missing": "closed ill-formed field type"}))
    a, t = base()
    out.append((EProg(a + [EAdt("Holder", 1, [], [adt("Set", adt("NotHash")), var(0)])], t, [], "corpus-closed-field"),
                {"missing": "closed ill-formed field type in a parametric struct"}))
    a, t = base()
    out.append((EProg(a + [EAdt("Ok", 0, [], []), EAdt("Holder", 1, [], [adt("Set", adt("Ok")), var(0)])], t,
                      [pg.Impl(0, ("Hash", (adt("Ok"),)))], "corpus-closed-field"), {"missing": None}))
    # a repeated field type before the field that lacks its bound (and the sound counterpart)
    for wcs, missing in (([], "bound of a field type that follows a repeated field type"), ([impl_atom("Hash", var(0))], None)):
        a, t = base()
        a += [EAdt("Vec", 1, [], []), EAdt("MyType", 1, wcs, [adt("Vec", var(0)), adt("Vec", var(0)), adt("Set", var(0))])]
        out.append((EProg(a, t, [], "corpus-repeated-field"), {"missing": missing}))
    a, t = base()
    a += [EAdt("Vec", 1, [], []), EAdt("MyType2", 1, [], [adt("Vec", adt("Vec", var(0))), adt("Vec", var(0)), adt("Set", var(0))])]
    out.append((EProg(a, t, [], "corpus-repeated-field"), {"missing": "bound of a field type that follows a type repeated inside another field"}))
    # `#[upstream]` impls are WF-checked like local ones: trait Sub where Self: Super {}  #[upstream] impl Sub for Foo {}
    for up_impl, with_super, missing in ((True, False, "supertrait impl of an #[upstream] impl"), (True, True, None), (False, False, "supertrait impl")):
        p = EProg([EAdt("Foo")], [ETrait("Super"), ETrait("Sub", 0, [impl_atom("Super", var(0))])],
                  [pg.Impl(0, ("Sub", (adt("Foo"),)))] + ([pg.Impl(0, ("Super", (adt("Foo"),)))] if with_super else []), "corpus-upstream")
        p.impls[0].upstream = up_impl
        out.append((p, {"missing": missing}))
    p = EProg([EAdt("Wrap", 1, [], [])], [ETrait("Eq"), ETrait("Hash", 0, [impl_atom("Eq", var(0))])],
              [pg.Impl(1, ("Eq", (adt("Wrap", var(0)),)), [("Eq", (var(0),))]), pg.Impl(1, ("Hash", (adt("Wrap", var(0)),)))], "corpus-upstream")
    p.impls[1].upstream = True
    p.adts[0].upstream = True
    out.append((p, {"missing": "where-clause of an #[upstream] impl"}))
    # a struct declaration must not assume the types of its where-clauses well-formed (an impl header may):
    # struct Set<K> where K: Hash {}  impl<K> Marker for Set<K> {}  struct Foo<T> where Set<T>: Marker { value: Set<T> }
    def setp(extra_adts, extra_impls=()):
        return EProg([EAdt("NotHash"), EAdt("Set", 1, [impl_atom("Hash", var(0))], [])] + extra_adts, [ETrait("Hash"), ETrait("Marker")],
                     [pg.Impl(1, ("Marker", (adt("Set", var(0)),)))] + list(extra_impls), "corpus-applied-where")
    ST = adt("Set", var(0))
    out.append((setp([EAdt("Foo", 1, [impl_atom("Marker", ST)], [ST])]), {"missing": "bound of the applied type of a struct where-clause"}))
    out.append((setp([EAdt("Foo", 1, [impl_atom("Marker", ST), impl_atom("Hash", var(0))], [ST])]), {"missing": None}))
    out.append((setp([EAdt("Foo2", 2, [impl_atom("Marker", adt("Set", var(1)))], [var(0), adt("Set", var(1))])]),
                {"missing": "bound of the applied type of a struct where-clause (second parameter)"}))
    return out


# ---------------------------------------------------------------------------------------
# parser for the generator's own text format (replays carry text only)
# ---------------------------------------------------------------------------------------

import re as _re


def _split_top(s, sep):
    """split at `sep` outside <>, (), {}"""
    out, depth, cur, i = [], 0, "", 0
    while i < len(s):
        c = s[i]
        if c in "<({":
            depth += 1
        elif c in ">)}":
            depth -= 1
        if depth == 0 and s.startswith(sep, i):
            out.append(cur)
            cur = ""
            i += len(sep)
            continue
        cur += c
        i += 1
    if cur.strip() or out:
        out.append(cur)
    return [x.strip() for x in out if x.strip()]


def _parse_ty(s, vmap):
    s = s.strip()
    m = _re.match(r"^([A-Za-z_][A-Za-z0-9_]*)\s*(?:<(.*)>)?$", s, _re.S)
    if not m:
        raise ValueError("type: %r" % s)
    name, args = m.group(1), m.group(2)
    if args is None and name in vmap:
        return var(vmap[name])
    return ("adt", name, tuple(_parse_ty(a, vmap) for a in _split_top(args, ",")) if args else ())


def _parse_atom(s, vmap):
    s = s.strip()
    for pre, kinds in (("FromEnv(", ("fe", "fety")), ("WellFormed(", ("wf", "wfty"))):
        if s.startswith(pre) and s.endswith(")"):
            inner = s[len(pre):-1]
            if _split_top(inner, ":")[0] != inner.strip():
                a = _parse_atom(inner, vmap)
                return (kinds[0],) + a[1:]
            return (kinds[1], _parse_ty(inner, vmap))
    subj, tr = _split_top(s, ":")[0], s[s.index(":", len(_split_top(s, ":")[0])) + 1:].strip()
    m = _re.match(r"^([A-Za-z_][A-Za-z0-9_]*)\s*(?:<(.*)>)?$", tr, _re.S)
    args = [_parse_ty(subj, vmap)] + ([_parse_ty(a, vmap) for a in _split_top(m.group(2), ",")] if m.group(2) else [])
    return ("impl", m.group(1), tuple(args))


def parse_program(text):
    adts, traits, impls = [], [], []
    for line in text.split("\n"):
        line = line.strip()
        if not line:
            continue
        up = line.startswith("#[upstream]")
        if up:
            line = line[len("#[upstream]"):].strip()
        m = _re.match(r"^struct\s+(\w+)\s*(?:<([^>]*)>)?\s*(?:where\s+(.*?))?\s*\{(.*)\}\s*$", line)
        if m:
            params = [x.strip() for x in m.group(2).split(",")] if m.group(2) else []
            vmap = {n: k for k, n in enumerate(params)}
            wcs = [_parse_atom(w, vmap) for w in _split_top(m.group(3), ",")] if m.group(3) else []
            fields = [_parse_ty(f.split(":", 1)[1], vmap) for f in _split_top(m.group(4), ",")]
            it = EAdt(m.group(1), len(params), wcs, fields)
            it.upstream = up
            adts.append(it)
            continue
        m = _re.match(r"^((?:#\[\w+\]\s*)*)trait\s+(\w+)\s*(?:<([^>]*)>)?\s*(?:where\s+(.*?))?\s*\{\s*\}\s*$", line)
        if m:
            params = [x.strip() for x in m.group(3).split(",")] if m.group(3) else []
            vmap = {"Self": 0}
            vmap.update({n: k + 1 for k, n in enumerate(params)})
            wcs = [_parse_atom(w, vmap) for w in _split_top(m.group(4), ",")] if m.group(4) else []
            it = ETrait(m.group(2), len(params), wcs, _re.findall(r"#\[(\w+)\]", m.group(1)))
            it.upstream = up
            traits.append(it)
            continue
        m = _re.match(r"^impl\s*(?:<([^>]*)>)?\s*(!?)\s*(\w+)\s*(?:<(.*?)>)?\s+for\s+(.*?)\s*(?:where\s+(.*?))?\s*\{\s*\}\s*$", line)
        if m:
            params = [x.strip() for x in m.group(1).split(",")] if m.group(1) else []
            vmap = {n: k for k, n in enumerate(params)}
            args = [_parse_ty(m.group(5), vmap)] + ([_parse_ty(a, vmap) for a in _split_top(m.group(4), ",")] if m.group(4) else [])
            wcs = [_parse_atom(w, vmap)[1:] for w in _split_top(m.group(6), ",")] if m.group(6) else []
            it = pg.Impl(len(params), (m.group(3), tuple(args)), wcs, m.group(2) != "!")
            it.upstream = up
            impls.append(it)
            continue
        raise ValueError("item: %r" % line)
    return EProg(adts, traits, impls, "parsed")


def parse_goal(text, vmap=None):
    s = text.strip()
    vmap = dict(vmap or {})
    m = _re.match(r"^(forall|exists)\s*<([^>]*)>\s*\{(.*)\}$", s, _re.S)
    if m and _split_top(s, ",") == [s]:
        names = [x.strip() for x in m.group(2).split(",")]
        ids = []
        for n in names:
            vmap[n] = int(n[1:]) if _re.match(r"^X\d+$", n) else 1000 + len(vmap)
            ids.append(vmap[n])
        return (m.group(1), tuple(ids), parse_goal(m.group(3), vmap))
    parts = _split_top(s, ",")
    if len(parts) > 1:
        return ("and", tuple(parse_goal(x, vmap) for x in parts))
    if s.startswith("(") and s.endswith(")"):
        return parse_goal(s[1:-1], vmap)
    m = _re.match(r"^not\s*\{(.*)\}$", s, _re.S)
    if m:
        return ("not", parse_goal(m.group(1), vmap))
    m = _re.match(r"^if\s*\((.*?)\)\s*\{(.*)\}$", s, _re.S)
    if m:
        # the hypothesis list ends at the first top-level ')' : re-scan with depth
        depth, i = 0, s.index("(")
        for j in range(i, len(s)):
            if s[j] == "(":
                depth += 1
            elif s[j] == ")":
                depth -= 1
                if depth == 0:
                    break
        hyps_s, body_s = s[i + 1:j], s[j + 1:].strip()
        hs = []
        for h in _split_top(hyps_s, ";"):
            hb = _split_top(h, ":-")
            hs.append((_parse_atom(hb[0], vmap), tuple(_parse_atom(b, vmap) for b in _split_top(hb[1], ",")) if len(hb) > 1 else ()))
        return ("if", tuple(hs), parse_goal(body_s[1:-1], vmap))
    return ("atom", _parse_atom(s, vmap))
