"""Seeded generator of coherent chalk programs with associated types (property C07) and of the
goals the property quantifies over; rendered as `.chalk` text and as the Coq model
`Chalk.Rules.Assoc.aprog`; plus an (untrusted) Python normalizer used to pick interesting goals —
every value it computes is re-derived by the Coq model before it is used as an expectation.

  ty   ::= ("adt", name, (ty, ...)) | ("var", k) | ("ph", k)
         | ("proj", a, ty)      <ty as Tr>::A   (a = global associated type id)
         | ("phty", a, ty)      (Tr::A)<ty>     placeholder associated type (answers / model only)
  wc   ::= ("impl", trait_index, ty) | ("eq", a, ty, ty)         T: Tr   /   T: Tr<A = ty>
"""
from __future__ import annotations

import itertools

from . import sx

S_NORM, S_ALIAS, S_PH = 3000, 3001, 3002


class ATrait:
    def __init__(self, name, assocs=(), bounds=None):
        self.name, self.assocs, self.bounds = name, list(assocs), dict(bounds or {})


class AImpl:
    def __init__(self, nvars, trait, self_ty, wcs=(), vals=None):
        self.nvars, self.trait, self.self_ty, self.wcs, self.vals = nvars, trait, self_ty, list(wcs), dict(vals or {})


class AProg:
    def __init__(self, adts, traits, impls, shape="assoc"):
        self.adts, self.traits, self.impls, self.shape = list(adts), list(traits), list(impls), shape   # adts: [(name, nparams)]

    def assoc_name(self, a):
        for t in self.traits:
            if a in t.assocs:
                return t.name, "A%d" % a
        raise KeyError(a)

    def trait_of(self, a):
        for j, t in enumerate(self.traits):
            if a in t.assocs:
                return j
        raise KeyError(a)

    def adt_sym(self, name):
        for i, (n, _) in enumerate(self.adts):
            if n == name:
                return i
        raise KeyError(name)


def adt(name, *args):
    return ("adt", name, tuple(args))


def var(k):
    return ("var", k)


# ---------------------------------------------------------------------------------------
# text
# ---------------------------------------------------------------------------------------

def ty_text(p, t, vname):
    k = t[0]
    if k == "var":
        return vname(t[1])
    if k == "adt":
        return t[1] if not t[2] else "%s<%s>" % (t[1], ", ".join(ty_text(p, x, vname) for x in t[2]))
    if k == "proj":
        tr, an = p.assoc_name(t[1])
        return "<%s as %s>::%s" % (ty_text(p, t[2], vname), tr, an)
    raise ValueError("cannot write %r" % (t,))


def _iv(k):
    return "T%d" % k


def _gv(k):
    return "X%d" % k


def wc_text(p, w, vname):
    if w[0] == "impl":
        return "%s: %s" % (ty_text(p, w[2], vname), p.traits[w[1]].name)
    tr, an = p.assoc_name(w[1])
    return "%s: %s<%s = %s>" % (ty_text(p, w[2], vname), tr, an, ty_text(p, w[3], vname))


def to_text(p: AProg) -> str:
    out = []
    for n, k in p.adts:
        out.append("struct %s%s { }" % (n, "<%s>" % ", ".join(_iv(i) for i in range(k)) if k else ""))
    for t in p.traits:
        body = " ".join("type A%d%s;" % (a, (": " + t.bounds[a]) if t.bounds.get(a) else "") for a in t.assocs)
        out.append("trait %s { %s }" % (t.name, body))
    for im in p.impls:
        params = "<%s>" % ", ".join(_iv(i) for i in range(im.nvars)) if im.nvars else ""
        wc = (" where " + ", ".join(wc_text(p, w, _iv) for w in im.wcs)) if im.wcs else ""
        # the impl lists its values in its own order (independent of the trait's declaration order)
        order = getattr(im, "val_order", None) or sorted(im.vals)
        vals = " ".join("type A%d = %s;" % (a, ty_text(p, im.vals[a], _iv)) for a in order)
        out.append("impl%s %s for %s%s { %s }" % (params, p.traits[im.trait].name, ty_text(p, im.self_ty, _iv), wc, vals))
    return "\n".join(out)


# ---------------------------------------------------------------------------------------
# model (sx values of Chalk.Rules.Assoc)
# ---------------------------------------------------------------------------------------

def ty_model(p, t, nested=None, n=0):
    """nested: list collecting (a, self model) for projections (ANF); None = projections not allowed"""
    k = t[0]
    if k == "var":
        return ("TVar", sx.Nat(t[1]))
    if k == "ph":
        return ("TPh", t[1])
    if k == "adt":
        return ("tapp", p.adt_sym(t[1]), [ty_model(p, x, nested, n) for x in t[2]])
    if k == "phty":
        return ("tapp", S_PH, [("TCon", t[1]), ty_model(p, t[2], nested, n)])
    if k == "proj":
        if nested is None:
            raise ValueError("projection in a position the model does not support")
        nested.append(sx.Pair(t[1], ty_model(p, t[2], None, n)))
        return ("TVar", sx.Nat(n + len(nested) - 1))
    raise ValueError(t)


def wc_atoms(p, w):
    if w[0] == "impl":
        return [("tapp", 1000 + w[1], [ty_model(p, w[2])])]
    return [("tapp", 1000 + p.trait_of(w[1]), [ty_model(p, w[2])]),
            ("tapp", S_ALIAS, [("TCon", w[1]), ty_model(p, w[2]), ty_model(p, w[3])])]


def to_model(p: AProg):
    impls = []
    for im in p.impls:
        vals = []
        for a, v in sorted(im.vals.items()):
            nested = []
            tv = ty_model(p, v, nested, im.nvars)
            vals.append(("mkAval", a, nested, tv))
        wcs = [x for w in im.wcs for x in wc_atoms(p, w)]
        impls.append(("mkAimpl", 1000 + im.trait, sx.Nat(im.nvars), ty_model(p, im.self_ty), wcs, vals))
    return ("mkAprog", [a for t in p.traits for a in t.assocs], impls)


# ---------------------------------------------------------------------------------------
# the Python normalizer (untrusted helper)
# ---------------------------------------------------------------------------------------

def match(pat, t, s):
    if pat[0] == "var":
        if pat[1] in s:
            return s if s[pat[1]] == t else None
        s = dict(s)
        s[pat[1]] = t
        return s
    if pat[0] != t[0]:
        return None
    if pat[0] == "adt":
        if pat[1] != t[1] or len(pat[2]) != len(t[2]):
            return None
        for a, b in zip(pat[2], t[2]):
            s = match(a, b, s)
            if s is None:
                return None
        return s
    return s if pat == t else None


def subst(t, s):
    k = t[0]
    if k == "var":
        return s.get(t[1], t)
    if k == "adt":
        return ("adt", t[1], tuple(subst(x, s) for x in t[2]))
    if k in ("proj", "phty"):
        return (k, t[1], subst(t[2], s))
    return t


class Norm:
    def __init__(self, p: AProg, depth=12):
        self.p, self.depth = p, depth

    def applicable(self, tr, X, stack=()):
        """the impls of trait index tr that apply to the ground type X: [(impl, subst)]"""
        out = []
        if ("I", tr, X) in stack or len(stack) > self.depth:
            return out
        st = stack + (("I", tr, X),)
        for im in self.p.impls:
            if im.trait != tr:
                continue
            s = match(im.self_ty, X, {})
            if s is None:
                continue
            if all(self.wc_holds(w, s, st) for w in im.wcs):
                out.append((im, s))
        return out

    def wc_holds(self, w, s, stack):
        if w[0] == "impl":
            return bool(self.applicable(w[1], subst(w[2], s), stack))
        a, X, Y = w[1], subst(w[2], s), subst(w[3], s)
        if not self.applicable(self.p.trait_of(a), X, stack):
            return False
        return Y in self.solutions(a, X, stack)

    def value(self, a, X, stack=()):
        """preferred value (nested projections normalized when possible) or None when no impl applies"""
        if ("N", a, X) in stack or len(stack) > self.depth:
            return None
        st = stack + (("N", a, X),)
        ap = [(im, s) for im, s in self.applicable(self.p.trait_of(a), X, stack) if a in im.vals]
        if len(ap) != 1:
            return None
        im, s = ap[0]
        return self.norm_ty(subst(im.vals[a], s), st, prefer=True)

    def norm_ty(self, t, stack, prefer):
        if t[0] == "adt":
            return ("adt", t[1], tuple(self.norm_ty(x, stack, prefer) for x in t[2]))
        if t[0] == "proj":
            if prefer:
                v = self.value(t[1], t[2], stack)
                if v is not None:
                    return v
            return ("phty", t[1], t[2])
        return t

    def solutions(self, a, X, stack=()):
        """all U with Normalize(<X as Tr>::A -> U) or the placeholder form: the AliasEq solutions"""
        out = [("phty", a, X)]
        out += self.norm_solutions(a, X, stack)
        return out

    def norm_solutions(self, a, X, stack=()):
        if ("S", a, X) in stack or len(stack) > self.depth:
            return []
        st = stack + (("S", a, X),)
        out = []
        for im, s in self.applicable(self.p.trait_of(a), X, stack):
            if a not in im.vals:
                continue
            out += self.alts(subst(im.vals[a], s), st)
        return out

    def alts(self, t, stack):
        if t[0] == "adt":
            parts = [self.alts(x, stack) for x in t[2]]
            return [("adt", t[1], tuple(c)) for c in itertools.product(*parts)]
        if t[0] == "proj":
            return self.solutions(t[1], t[2], stack)
        return [t]


# ---------------------------------------------------------------------------------------
# generation
# ---------------------------------------------------------------------------------------

def gen_program(rng) -> AProg:
    ncon = rng.randint(3, 4)
    adts = [("S%d" % i, 0) for i in range(ncon)] + [("W", 1), ("V", 1)]
    if rng.random() < 0.6:
        adts.append(("P", 2))
    ntr = rng.randint(1, 3)
    traits, next_a = [], 0
    plain = rng.random() < 0.6
    for j in range(ntr):
        k = rng.choice([1, 2, 2, 3])
        assocs = list(range(next_a, next_a + k))
        next_a += k
        bounds = {a: "Mk" for a in assocs if plain and rng.random() < 0.3}
        rng.shuffle(assocs)
        traits.append(ATrait("Tr%d" % j, assocs, bounds))
    if plain:
        traits.append(ATrait("Mk"))
    p = AProg(adts, traits, [])
    consts = [adt(n) for n, k in adts if k == 0]

    def small_ty(nv, depth=2):
        r = rng.random()
        if nv and r < 0.45:
            return var(rng.randrange(nv))
        if depth > 1 and r < 0.75:
            n, k = rng.choice([x for x in adts if x[1] > 0])
            return ("adt", n, tuple(small_ty(nv, depth - 1) for _ in range(k)))
        return rng.choice(consts)

    for j, t in enumerate(traits):
        heads = []
        pool = list(consts)
        rng.shuffle(pool)
        heads += [(0, c) for c in pool[:rng.randint(1, len(pool))]]
        for n, k in adts:
            if k == 0:
                continue
            r = rng.random()
            if r < 0.55:
                heads.append((k, ("adt", n, tuple(var(i) for i in range(k)))))
            elif k == 2 and r < 0.95:
                # headers that pass chalk's syntactic could_match filter against a concrete self type
                # without unifying with it: a repeated parameter next to concrete instances (coherent:
                # pairwise non-unifiable)
                a, b = rng.sample(consts, 2)
                hs = [(1, ("adt", n, (var(0), var(0)))), (0, ("adt", n, (a, b)))]
                if rng.random() < 0.5:
                    hs.append((1, ("adt", n, (var(0), ("adt", "W", (var(0),))))))
                    hs.append((0, ("adt", n, (a, ("adt", "W", (b,))))))
                if rng.random() < 0.4:
                    hs.append((1, ("adt", n, (("adt", "W", (var(0),)), ("adt", "V", (var(0),))))))
                    hs.append((0, ("adt", n, (("adt", "W", (a,)), ("adt", "V", (b,))))))
                heads += hs
            elif r < 0.8 and k == 1:
                # non-overlapping instances W<S0>, W<S1>, W<W<T>>
                inner = list(consts)[:2] + [("adt", "W", (var(0),))]
                rng.shuffle(inner)
                for c in inner[:rng.randint(1, 3)]:
                    heads.append((1 if c[0] == "adt" and c[2] else 0, ("adt", n, (c,))))
        for nv, h in heads:
            wcs = []
            if nv:
                for _ in range(rng.choice([0, 0, 1, 1, 2])):
                    tv = var(rng.randrange(nv))
                    jj = rng.randrange(len(traits))
                    tt = traits[jj]
                    if tt.assocs and rng.random() < 0.35:
                        a = rng.choice(tt.assocs)
                        wcs.append(("eq", a, tv, rng.choice(consts) if rng.random() < 0.7 else small_ty(nv)))
                    else:
                        wcs.append(("impl", jj, tv))
            vals = {}
            for a in t.assocs:
                v = small_ty(nv, 2)
                r = rng.random()
                if r < 0.35:
                    # a nested projection: an earlier trait on any type, or this trait on a parameter
                    cands = [(jj, a2) for jj in range(j) for a2 in traits[jj].assocs]
                    if nv and t.assocs and h[0] == "adt" and h[2]:
                        cands += [(j, a2) for a2 in t.assocs] * 2
                    if cands:
                        jj, a2 = rng.choice(cands)
                        st = var(rng.randrange(nv)) if (jj == j or (nv and rng.random() < 0.6)) else small_ty(nv, 2)
                        pr = ("proj", a2, st)
                        v = pr if rng.random() < 0.6 else ("adt", "W", (pr,))
                vals[a] = v
            im = AImpl(nv, j, h, wcs, vals)
            im.val_order = list(vals)
            rng.shuffle(im.val_order)
            p.impls.append(im)
    rng.shuffle(p.impls)
    return p


def universe(p: AProg, depth=3, limit=80, rng=None):
    consts = [adt(n) for n, k in p.adts if k == 0]
    allt = list(consts)
    for _ in range(depth - 1):
        new = []
        for n, k in p.adts:
            if k == 0:
                continue
            for args in itertools.product(allt, repeat=k):
                t = ("adt", n, tuple(args))
                if t not in allt and t not in new:
                    new.append(t)
                if len(new) > 4 * limit:
                    break
        allt += new
    if rng is not None:
        head, tail = allt[:len(consts)], allt[len(consts):]
        rng.shuffle(tail)
        allt = head + tail
    return allt[:limit]


def corpus():
    """the programs of tests/test/projection.rs style used in the examples of Rules/Assoc.v"""
    adts = [("Foo", 0), ("Bar", 0), ("Baz", 0), ("Vec", 1)]
    traits = [ATrait("Iterator", [0]), ATrait("Tr2", [1])]
    impls = [AImpl(1, 0, adt("Vec", var(0)), [], {0: var(0)}),
             AImpl(0, 0, adt("Foo"), [], {0: adt("Bar")}),
             AImpl(0, 1, adt("Bar"), [], {1: ("proj", 0, adt("Vec", adt("Foo")))}),
             AImpl(1, 1, adt("Vec", var(0)), [("impl", 0, var(0))], {1: ("proj", 0, var(0))})]
    out = [AProg(adts, traits, impls, "corpus-nested")]
    # a header with a repeated parameter passes could_match against Pair<U32, I32> but does not apply to it
    adts2 = [("U32", 0), ("I32", 0), ("Same", 0), ("Mixed", 0), ("Pair", 2), ("W", 1)]
    tr2 = [ATrait("Tr", [0])]
    i_same = AImpl(1, 0, adt("Pair", var(0), var(0)), [], {0: adt("Same")})
    i_mixed = AImpl(0, 0, adt("Pair", adt("U32"), adt("I32")), [], {0: adt("Mixed")})
    i_deep = AImpl(1, 0, adt("Pair", adt("W", var(0)), var(0)), [], {0: adt("W", var(0))})
    for order in ([i_same, i_mixed, i_deep], [i_mixed, i_same, i_deep], [i_deep, i_same, i_mixed]):
        out.append(AProg(adts2, tr2, list(order), "corpus-repeated-param"))
    # an impl that lists its values in another order than the trait declares the associated types
    adts3 = [("Y", 0), ("Z", 0), ("U32", 0), ("I32", 0), ("F64", 0), ("W", 1)]
    tr3 = [ATrait("Tr", [0, 1, 2])]
    i1 = AImpl(0, 0, adt("Y"), [], {0: adt("I32"), 1: adt("U32"), 2: adt("F64")})
    i1.val_order = [1, 2, 0]
    i2 = AImpl(0, 0, adt("Z"), [], {0: adt("U32"), 1: adt("I32"), 2: adt("Z")})
    i2.val_order = [2, 0, 1]
    i3 = AImpl(1, 0, adt("W", var(0)), [], {0: var(0), 1: adt("W", var(0)), 2: ("proj", 1, var(0))})
    i3.val_order = [1, 0, 2]
    out.append(AProg(adts3, tr3, [i1, i2, i3], "corpus-value-order"))
    return out
