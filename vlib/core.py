"""Shared machinery of the per-property checks: building, running Coq, running the Rust
harness, evidence, violation / known-finding reporting.  No third-party imports."""
from __future__ import annotations

import concurrent.futures
import fcntl
import hashlib
import json
import os
import random
import re
import shutil
import subprocess
import sys
import time

from . import sx

VERIF = os.path.dirname(os.path.dirname(os.path.abspath(__file__)))
REPO = os.environ.get("VERIF_REPO", "/repo")
BUILD = os.path.join(VERIF, "build")
COQ = os.path.join(VERIF, "coq")
HARNESS_SRC = os.path.join(VERIF, "harness")
# Mutation testing without disturbing /repo: VERIF_REPO=/var/tmp/x-repo ./vcheck Cxx builds a
# shadow copy of the harness manifest against that tree, with its own target dir, work dirs
# and evidence dir.  Registered checks never set it (they build from /repo).
SHADOW = None if os.path.realpath(REPO) == "/repo" else hashlib.sha1(os.path.realpath(REPO).encode()).hexdigest()[:10]
HARNESS = HARNESS_SRC if SHADOW is None else os.path.join(BUILD, "shadow-" + SHADOW)
TARGET = os.environ.get("VERIF_TARGET_DIR", os.path.join(BUILD, "target" if SHADOW is None else "target-" + SHADOW))
EVIDENCE_DIR = os.path.join(VERIF, "evidence") if SHADOW is None else os.path.join(BUILD, "evidence-" + SHADOW)
GUARD = "chalk_verif"
NCPU = os.cpu_count() or 4

ALLOWED_AXIOMS = {
    # standard-library axioms that may appear through Equations / dependent destruction /
    # FunctionalExtensionality; each one that shows up is named in the evidence.
    "functional_extensionality_dep",
    "FunctionalExtensionality.functional_extensionality_dep",
    "Eqdep.Eq_rect_eq.eq_rect_eq",
    "eq_rect_eq",
    "JMeq.JMeq_eq",
    "JMeq_eq",
    "Classical_Prop.classic",
    "classic",
    "ProofIrrelevance.proof_irrelevance",
    "proof_irrelevance",
}

FORBIDDEN = re.compile(
    r"\b(Admitted|admit|Axiom|Axioms|Parameter|Parameters|Conjecture|Conjectures|Hypothesis|Hypotheses|Variable|Variables)\b"
    r"|Unset\s+Guard|bypass_check|type-in-type|impredicative-set|Admit\s+Obligations|Unset\s+Universe\s+Checking|Unset\s+Positivity"
)


class CheckFailure(Exception):
    """Infrastructure failure (build broke, harness crashed ...)."""


def log(*a):
    print(*a, file=sys.stderr, flush=True)


def sh(cmd, timeout=None, cwd=None, env=None, input=None, check=False):
    e = dict(os.environ)
    e.setdefault("CARGO_NET_OFFLINE", "true")
    if env:
        e.update(env)
    try:
        p = subprocess.run(cmd, cwd=cwd, env=e, input=input, capture_output=True, text=True,
                           timeout=timeout, shell=isinstance(cmd, str))
    except subprocess.TimeoutExpired as ex:
        out = ex.stdout if isinstance(ex.stdout, str) else (ex.stdout or b"").decode("utf8", "replace")
        err = ex.stderr if isinstance(ex.stderr, str) else (ex.stderr or b"").decode("utf8", "replace")
        return 124, out, err + "\n[timeout after %ss]" % timeout
    if check and p.returncode != 0:
        raise CheckFailure("command failed (%d): %s\n%s\n%s" % (p.returncode, cmd, p.stdout[-4000:], p.stderr[-4000:]))
    return p.returncode, p.stdout, p.stderr


class Lock:
    def __init__(self, name):
        os.makedirs(BUILD, exist_ok=True)
        self.path = os.path.join(BUILD, name + ".lock")

    def __enter__(self):
        self.f = open(self.path, "w")
        fcntl.flock(self.f, fcntl.LOCK_EX)
        return self

    def __exit__(self, *a):
        fcntl.flock(self.f, fcntl.LOCK_UN)
        self.f.close()


# ---------------------------------------------------------------------------------------
# Coq
# ---------------------------------------------------------------------------------------

def coq_sources():
    out = []
    for d, _, fs in os.walk(COQ):
        for f in fs:
            if f.endswith(".v") and not f.startswith("."):
                out.append(os.path.relpath(os.path.join(d, f), COQ))
    return sorted(out)


def strip_coq_comments(text: str) -> str:
    out = []
    depth = 0
    i = 0
    n = len(text)
    in_str = False
    while i < n:
        if depth == 0 and text[i] == '"':
            in_str = not in_str
            out.append(text[i])
            i += 1
            continue
        if not in_str and text.startswith("(*", i):
            depth += 1
            i += 2
            continue
        if not in_str and depth > 0 and text.startswith("*)", i):
            depth -= 1
            i += 2
            continue
        if depth == 0:
            out.append(text[i])
        elif text[i] == "\n":
            out.append("\n")
        i += 1
    return "".join(out)


def coq_hygiene(files=None):
    """Forbidden-token scan over the Coq sources (comments and strings stripped).
    Section-local `Variable`/`Hypothesis`/`Context` are allowed only inside a Section; we
    approximate this conservatively: the tokens are allowed when a `Section` is open."""
    bad = []
    for rel in (files or coq_sources()):
        text = strip_coq_comments(open(os.path.join(COQ, rel)).read())
        text = re.sub(r'"[^"]*"', '""', text)
        depth = 0
        for ln, line in enumerate(text.split("\n"), 1):
            if re.match(r"\s*Section\s+\w+", line):
                depth += 1
            for m in FORBIDDEN.finditer(line):
                tok = m.group(0)
                if tok.split()[0] in ("Variable", "Variables", "Hypothesis", "Hypotheses") and depth > 0:
                    continue
                bad.append("%s:%d: %s" % (rel, ln, tok))
            if re.match(r"\s*End\s+\w+\s*\.", line) and depth > 0:
                # may also close a Module; harmless: only makes the scan stricter afterwards
                depth -= 1
    return bad


def coq_deps(module):
    """Transitive closure of the Chalk.* modules a module requires (relative .v paths)."""
    seen, todo = [], [module]
    while todo:
        m = todo.pop()
        rel = m.replace(".", "/") + ".v"
        if rel in seen or not os.path.exists(os.path.join(COQ, rel)):
            continue
        seen.append(rel)
        text = strip_coq_comments(open(os.path.join(COQ, rel)).read())
        for mm in re.finditer(r"(?:From\s+Chalk\s+)?Require\s+(?:Import\s+|Export\s+)?([^.]*(?:\.[A-Za-z_][\w.]*)*)\s*\.(?:\s|$)", text):
            for name in mm.group(1).split():
                name = name.strip()
                if name.startswith("Chalk."):
                    name = name[len("Chalk."):]
                if re.match(r"^[A-Za-z_][\w]*(\.[A-Za-z_]\w*)+$", name):
                    todo.append(name)
    return seen


def coq_project():
    """(Re)generate _CoqProject and Makefile when the set of sources changed."""
    srcs = coq_sources()
    content = "-Q . Chalk\n-arg -w -arg -notation-overridden,-deprecated-hint-without-locality,-deprecated-instance-without-locality\n" + "\n".join(srcs) + "\n"
    cp = os.path.join(COQ, "_CoqProject")
    old = open(cp).read() if os.path.exists(cp) else None
    if old != content or not os.path.exists(os.path.join(COQ, "Makefile")):
        with open(cp, "w") as f:
            f.write(content)
        sh(["coq_makefile", "-f", "_CoqProject", "-o", "Makefile"], cwd=COQ, timeout=120, check=True)


def coq_make(targets=None, timeout=3000):
    """Full .vo build of the given targets (relative .vo paths) or of everything."""
    with Lock("coq"):
        coq_project()
        cmd = ["make", "-j%d" % NCPU] + (list(targets) if targets else [])
        t0 = time.time()
        rc, out, err = sh(cmd, cwd=COQ, timeout=timeout)
        return rc, (out + err), time.time() - t0


def coqc_file(path, timeout=600):
    """Compile a generated .v file against the Chalk library.  If a required module has not been
    compiled yet (fresh checkout: only the property theories' own dependencies are built by the
    proof stage) or is stale, build it with make and retry."""
    for _ in range(6):
        rc, out, err = sh(["coqc", "-noglob", "-Q", COQ, "Chalk", path], timeout=timeout, cwd=os.path.dirname(path))
        if rc == 0:
            return rc, out, err
        m = re.search(r"Cannot find a physical path bound to logical path\s+([\w.]+) with prefix Chalk", out + err)
        m2 = re.search(r"Compiled library Chalk\.([\w.]+) \(in file [^)]*\) makes inconsistent assumptions", out + err)
        m3 = re.search(r"Unable to locate library ([\w.]+)", out + err)
        mod = (m.group(1) if m else None) or (m2.group(1) if m2 else None) or (m3.group(1) if m3 else None)
        if not mod:
            return rc, out, err
        if mod.startswith("Chalk."):
            mod = mod[len("Chalk."):]
        rc2, out2, _ = coq_make([mod.replace(".", "/") + ".vo"])
        if rc2 != 0:
            return rc, out, err + "\n[make %s failed]\n%s" % (mod, out2[-1500:])
    return rc, out, err


def coq_assumptions(prop_id, module, theorems, workdir):
    """Print Assumptions for each theorem; returns {thm: [] | [axioms]} ; raises if coqc fails."""
    os.makedirs(workdir, exist_ok=True)
    path = os.path.join(workdir, "Audit_%s.v" % prop_id)
    lines = ["From Chalk Require Import %s." % module]
    for t in theorems:
        lines.append('Goal True. idtac "@@BEGIN %s". Abort.' % t)
        lines.append("Print Assumptions %s." % t)
        lines.append('Goal True. idtac "@@END %s". Abort.' % t)
    with open(path, "w") as f:
        f.write("\n".join(lines) + "\n")
    rc, out, err = coqc_file(path, timeout=600)
    if rc != 0:
        raise CheckFailure("assumption audit failed to compile:\n" + out[-3000:] + err[-3000:])
    res = {}
    for t in theorems:
        m = re.search(r"@@BEGIN %s\n(.*?)@@END %s" % (re.escape(t), re.escape(t)), out, re.S)
        if not m:
            raise CheckFailure("no Print Assumptions output for " + t)
        body = m.group(1)
        if "Closed under the global context" in body:
            res[t] = []
        else:
            axs = re.findall(r"^([A-Za-z_][\w.']*)\s*:", body, re.M)
            res[t] = axs or ["<unparsed: %s>" % body.strip()[:200]]
    return res


def _coq_eval_one(args):
    path, text, timeout = args
    with open(path, "w") as f:
        f.write(text)
    rc, out, err = coqc_file(path, timeout=timeout)
    return rc, out, err


def coq_mismatches(workdir, tag, imports, fn, eqb, in_ty, out_ty, pairs, shard=400, timeout=900, prelude=""):
    """Evaluate `fn input` inside Coq (vm_compute) for every (input, expected) pair and return
    the indices where `eqb (fn input) expected` is false.  `pairs` are Python sx values.
    All shards run in parallel coqc processes."""
    os.makedirs(workdir, exist_ok=True)
    jobs = []
    for s in range(0, len(pairs), shard):
        chunk = pairs[s:s + shard]
        items = ";\n".join("(%s, %s)" % (sx.to_coq(a), sx.to_coq(b)) for a, b in chunk)
        text = (
            "From Coq Require Import List NArith String Bool.\nImport ListNotations.\n"
            + "".join("From Chalk Require Import %s.\n" % m for m in imports)
            + prelude + "\n"
            + "Definition cases : list ((%s) * (%s)) := [\n%s\n].\n" % (in_ty, out_ty, items)
            + "Fixpoint mism (i : N) (l : list ((%s) * (%s))) : list N :=\n" % (in_ty, out_ty)
            + "  match l with [] => [] | (a, b) :: r => if (%s) ((%s) a) b then mism (N.succ i) r else i :: mism (N.succ i) r end.\n" % (eqb, fn)
            + 'Goal True. idtac "@@RESULT". Abort.\n'
            + "Eval vm_compute in (List.length cases, mism 0%N cases).\n"
        )
        jobs.append((os.path.join(workdir, "Cases_%s_%d.v" % (tag, s // shard)), text, timeout))
    bad = []
    with concurrent.futures.ThreadPoolExecutor(max_workers=NCPU) as ex:
        for k, (rc, out, err) in enumerate(ex.map(_coq_eval_one, jobs)):
            if rc != 0:
                raise CheckFailure("coq evaluation of %s failed:\n%s\n%s" % (jobs[k][0], out[-2000:], err[-4000:]))
            m = re.search(r"@@RESULT\s*=\s*\(\s*(\d+)(?:%nat)?\s*,(.*)\)\s*:\s*nat \* list N", out, re.S)
            if m and int(m.group(1)) != len(pairs[k * shard:(k + 1) * shard]):
                raise CheckFailure("coq evaluated %s cases, expected %d" % (m.group(1), len(pairs[k * shard:(k + 1) * shard])))
            if m:
                m = re.match(r"(.*)", m.group(2), re.S)
            if not m:
                raise CheckFailure("cannot parse coq output: " + out[-2000:])
            body = m.group(1)
            if not re.fullmatch(r"\s*\[[\d%N;\s]*\]\s*", body):
                raise CheckFailure("unexpected coq result syntax: " + body[:500])
            for d in re.findall(r"(\d+)(?:%N)?", body):
                bad.append(k * shard + int(d))
    return sorted(bad)


def coq_eval(workdir, tag, imports, exprs, timeout=600, prelude=""):
    """Evaluate Coq expressions with vm_compute and return the printed values (for replays
    and diagnostics only: the output is wrapped text, never parsed for a verdict)."""
    os.makedirs(workdir, exist_ok=True)
    text = ("From Coq Require Import List NArith String Bool.\nImport ListNotations.\nSet Printing Width 1000000.\nSet Printing Depth 1000000.\n"
            + "".join("From Chalk Require Import %s.\n" % m for m in imports) + prelude + "\n")
    for i, e in enumerate(exprs):
        text += 'Goal True. idtac "@@E%d". Abort.\nEval vm_compute in (%s).\n' % (i, e)
    text += 'Goal True. idtac "@@END". Abort.\n'
    path = os.path.join(workdir, "Eval_%s.v" % tag)
    rc, out, err = _coq_eval_one((path, text, timeout))
    if rc != 0:
        raise CheckFailure("coq eval failed:\n" + out[-2000:] + err[-4000:])
    res = []
    for i in range(len(exprs)):
        m = re.search(r"@@E%d\n(.*?)@@(?:E%d|END)" % (i, i + 1), out, re.S)
        res.append(m.group(1).strip() if m else "")
    return res


# ---------------------------------------------------------------------------------------
# Rust harness
# ---------------------------------------------------------------------------------------

def repo_tree_stamp():
    rc, out, _ = sh("git -C %s rev-parse HEAD; git -C %s status --porcelain; git -C %s diff | sha1sum" % (REPO, REPO, REPO), timeout=120)
    return hashlib.sha1(out.encode()).hexdigest()


def build_harness(bins=None, release=False, timeout=3000):
    """Incremental cargo build of the harness against /repo's current working tree with the
    hooks enabled.  Serialised by a lock so that concurrent checks share one build."""
    with Lock("cargo" if SHADOW is None else "cargo-" + SHADOW):
        if SHADOW is not None:
            os.makedirs(HARNESS, exist_ok=True)
            man = open(os.path.join(HARNESS_SRC, "Cargo.toml")).read().replace('"/repo/', '"%s/' % os.path.realpath(REPO))
            mp = os.path.join(HARNESS, "Cargo.toml")
            if not os.path.exists(mp) or open(mp).read() != man:
                open(mp, "w").write(man)
            if not os.path.islink(os.path.join(HARNESS, "src")):
                os.symlink(os.path.join(HARNESS_SRC, "src"), os.path.join(HARNESS, "src"))
            shutil.copy(os.path.join(REPO, "Cargo.lock"), os.path.join(HARNESS, "Cargo.lock"))
        lock_src = os.path.join(REPO, "Cargo.lock")
        lock_dst = os.path.join(HARNESS, "Cargo.lock")
        if os.path.exists(lock_src) and (not os.path.exists(lock_dst)):
            shutil.copy(lock_src, lock_dst)
        cmd = ["cargo", "build", "--offline"]
        if release:
            cmd.append("--release")
        for b in (bins or []):
            cmd += ["--bin", b]
        env = {"RUSTFLAGS": "--cfg %s" % GUARD, "CARGO_TARGET_DIR": TARGET, "CARGO_NET_OFFLINE": "true"}
        t0 = time.time()
        rc, out, err = sh(cmd, cwd=HARNESS, env=env, timeout=timeout)
        if rc != 0:
            raise CheckFailure("harness build failed:\n" + err[-6000:])
        return time.time() - t0


def harness_bin(name, release=False):
    return os.path.join(TARGET, "release" if release else "debug", name)


def run_harness(name, cases, args=(), timeout=1200, release=False, shards=None, stack_mb=None):
    """Feed one S-expression per line to a harness binary and read one result line per case.
    Cases are sharded over processes; a shard that dies (abort / timeout) is re-run case by
    case so that the offending case is identified: its result is (Abort "...") / (Timeout)."""
    exe = harness_bin(name, release)
    lines = [c if isinstance(c, str) else sx.to_sexp(c) for c in cases]
    if not lines:
        return []
    shards = shards or min(NCPU, max(1, len(lines) // 8))
    per = (len(lines) + shards - 1) // shards
    chunks = [(i, lines[i:i + per]) for i in range(0, len(lines), per)]
    pre = "ulimit -s %d; " % (stack_mb * 1024) if stack_mb else ""

    def run_chunk(ch, tmo):
        inp = "\n".join(ch) + "\n"
        if pre:
            rc, out, err = sh(pre + "exec " + " ".join([exe] + list(args)), input=inp, timeout=tmo)
        else:
            rc, out, err = sh([exe] + list(args), input=inp, timeout=tmo)
        return rc, out, err

    def work(item):
        start, ch = item
        rc, out, err = run_chunk(ch, timeout)
        res = out.split("\n")
        if res and res[-1] == "":
            res.pop()
        if rc == 0 and len(res) == len(ch):
            return start, res
        # identify the culprit(s): keep the results we got, re-run the rest one by one
        got = res[:len(ch)] if rc != 0 else []
        final = list(got[:max(0, len(got))])
        # the line after the last complete result is the suspect; re-run individually from there
        k = len(final)
        while k < len(ch):
            rc1, out1, err1 = run_chunk([ch[k]], max(30, timeout // 10))
            r1 = out1.strip().split("\n")[0] if out1.strip() else ""
            if rc1 == 0 and r1:
                final.append(r1)
            elif rc1 == 124:
                final.append("Timeout")
            else:
                msg = (err1.strip().split("\n") or [""])[-1][:200]
                final.append(sx.to_sexp(("Abort", sx.Str("rc=%d %s" % (rc1, msg)))))
            k += 1
        return start, final

    out = [None] * len(lines)
    with concurrent.futures.ThreadPoolExecutor(max_workers=NCPU) as ex:
        for start, res in ex.map(work, chunks):
            for j, r in enumerate(res):
                out[start + j] = r
    return out


# ---------------------------------------------------------------------------------------
# Known findings
# ---------------------------------------------------------------------------------------

def load_known():
    p = os.path.join(VERIF, "known_findings.json")
    if not os.path.exists(p):
        return {"findings": [], "fixed": []}
    return json.load(open(p))


# ---------------------------------------------------------------------------------------
# The per-run context
# ---------------------------------------------------------------------------------------

class Ctx:
    def __init__(self, prop_id, tier, seed, meta):
        self.id = prop_id
        self.tier = tier
        self.seed = seed
        self.meta = meta
        self.rng = random.Random((seed * 1000003) ^ int(hashlib.sha1(prop_id.encode()).hexdigest()[:8], 16))
        self.t0 = time.time()
        self.work = os.path.join(BUILD, "work" if SHADOW is None else "work-" + SHADOW, prop_id)
        shutil.rmtree(self.work, ignore_errors=True)
        os.makedirs(self.work, exist_ok=True)
        self.replays = os.path.join(BUILD, "replays" if SHADOW is None else "replays-" + SHADOW)
        os.makedirs(self.replays, exist_ok=True)
        self.violations = []
        self.known_hits = []
        self.cov = {"evaluations": 0, "distinct_nontrivial": 0, "rule": "", "samples": [],
                    "obligations": 0, "discharged": 0, "checker_cmd": "", "trusted_base": [],
                    "families": {}}
        self.assumptions = []
        self.known = [f for f in load_known().get("findings", []) if f.get("property") == prop_id]
        self._distinct = set()

    @property
    def quick(self):
        return self.tier == "quick"

    def n(self, quick, thorough):
        return quick if self.quick else thorough

    # -- proof stage -------------------------------------------------------------------
    def proof_stage(self, module, theorems, extra_targets=()):
        """Build Props/<module>.vo (and what it depends on), audit hygiene and assumptions.
        A failure here is reported as a violation without failing input by the caller."""
        tgt = [module.replace(".", "/") + ".vo"] + list(extra_targets)
        rc, out, dt = coq_make(tgt)
        self.cov["checker_cmd"] = "make -C /verif/coq %s (coqc 8.16.1 kernel; Print Assumptions audit; forbidden-token scan)" % " ".join(tgt)
        self.cov["obligations"] += len(theorems)
        if rc != 0:
            m = re.search(r'File "\./([^"]+)", line (\d+).*?\n(Error:.*?)(?:\n\n|\Z)', out, re.S)
            what = "coq build failed: " + (("%s:%s %s" % (m.group(1), m.group(2), m.group(3)[:400])) if m else out[-1500:])
            return False, what
        deps = coq_deps(module)
        self.cov["coq_files"] = deps
        bad = coq_hygiene(deps)
        if bad:
            return False, "forbidden tokens in the Coq development: " + "; ".join(bad[:10])
        ax = coq_assumptions(self.id, module, theorems, self.work)
        used = set()
        for t, a in ax.items():
            for x in a:
                if x not in ALLOWED_AXIOMS and x.split(".")[-1] not in ALLOWED_AXIOMS:
                    return False, "theorem %s depends on a non-allow-listed axiom %s" % (t, x)
                used.add(x)
        if not self.quick:
            # thorough tier: independent re-check of the compiled theory (and everything it depends on)
            rc2, out2, err2 = sh(["coqchk", "-o", "-silent", "-Q", COQ, "Chalk", "Chalk." + module], timeout=3000, cwd=COQ)
            m = re.search(r"\* Axioms:\s*(.*?)\n\s*\n", out2 + err2, re.S)
            axs = m.group(1).strip() if m else "<unparsed>"
            self.cov["coqchk"] = {"rc": rc2, "axioms": axs[:500]}
            if rc2 != 0:
                return False, "coqchk rejected %s: %s" % (module, (out2 + err2)[-800:])
            if axs != "<none>":
                for a in re.findall(r"([A-Za-z_][\w.']*)", axs):
                    if a not in ALLOWED_AXIOMS and a.split(".")[-1] not in ALLOWED_AXIOMS:
                        return False, "coqchk reports a non-allow-listed axiom %s under %s" % (a, module)
        self.cov["discharged"] += len(theorems)
        self.cov["trusted_base"] = sorted(set(self.cov["trusted_base"]) | {
            "Coq 8.16.1 kernel (coqc) incl. vm_compute; no native_compute",
            "axioms reported by Print Assumptions: " + (", ".join(sorted(used)) if used else "none (Closed under the global context)"),
            "hand-written Gallina model tied to /repo by the correspondence stage of this run",
            "Rust harness translation chalk_ir <-> S-expressions; vlib/check.py comparison code",
        })
        self.cov["theorems"] = ["%s.%s" % (module, t) for t in theorems]
        self.cov["coq_build_s"] = round(dt, 1)
        return True, ""

    # -- coverage accounting ---------------------------------------------------------------
    def count(self, family, case_key, nontrivial=True, n=1):
        self.cov["evaluations"] += n
        fam = self.cov["families"].setdefault(family, {"cases": 0, "nontrivial": 0})
        fam["cases"] += n
        if nontrivial:
            h = hashlib.sha1(repr(case_key).encode()).digest()[:10]
            if h not in self._distinct:
                self._distinct.add(h)
                fam["nontrivial"] += 1
                self.cov["distinct_nontrivial"] += 1

    def sample(self, x, limit=6):
        if len(self.cov["samples"]) < limit:
            self.cov["samples"].append(x if isinstance(x, (str, dict, list, int)) else repr(x))

    # -- outcomes ----------------------------------------------------------------------------
    def match_known(self, key, cls=None):
        for f in self.known:
            if f.get("kind") == "point" and f.get("key") == key:
                return f
            if f.get("kind") == "class" and cls is not None and f.get("class") == cls:
                return f
        return None

    def known_finding(self, finding, detail=""):
        tag = finding.get("id", "?")
        if tag not in [k[0] for k in self.known_hits]:
            self.known_hits.append((tag, finding.get("what", "")))
            print("KNOWN-FINDING: property=%s %s: %s%s" % (self.id, tag, finding.get("what", ""), (" [" + detail + "]") if detail else ""), flush=True)

    def violation(self, replay: dict, no_input=False):
        k = len(self.violations)
        path = os.path.join(self.replays, "%s-%d-%d.json" % (self.id, self.seed, k))
        replay = dict(replay)
        replay.setdefault("property", self.id)
        replay.setdefault("seed", self.seed)
        replay.setdefault("tier", self.tier)
        replay.setdefault("replay_cmd", "cd /verif && %s./vcheck %s --replay %s" % (
            "" if SHADOW is None else "VERIF_REPO=%s " % os.path.realpath(REPO), self.id, path))
        with open(path, "w") as f:
            json.dump(replay, f, indent=1, default=str)
        self.violations.append(path)
        print("VIOLATION property=%s replay=%s%s" % (self.id, path, " no-failing-input-found" if no_input else ""), flush=True)

    def finish(self):
        cov = self.cov
        cov["known_findings_hit"] = [k[0] for k in self.known_hits]
        ev = {
            "property_id": self.id,
            "tier": self.tier,
            "seed": self.seed,
            "level": self.meta["level"],
            "coverage": cov,
            "assumptions": self.meta.get("assumptions", []) + self.assumptions,
            "wall_s": round(time.time() - self.t0, 2),
            "violations": len(self.violations),
        }
        os.makedirs(EVIDENCE_DIR, exist_ok=True)
        with open(os.path.join(EVIDENCE_DIR, "%s.json" % self.id), "w") as f:
            json.dump(ev, f, indent=1, default=str)
        return 1 if self.violations else 0
