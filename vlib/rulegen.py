"""Seeded generator of chalk programs with auto traits, #[coinductive] traits and the built-in
(lang item) traits over ALL structural type constructors, for the rule models
Rules/Auto.v / Rules/Builtin.v (properties C05, C08).

Every program / goal is rendered as `.chalk` text (real parser + lowering) and as an sx value
of the Coq type `Chalk.Rules.Types.decls` / `ty`.  Also here: the parser of the `rules`
harness binary's clause dump and the (trusted, first-order) instantiation of a dumped clause
against a ground goal atom.

Abstract syntax (plain tuples, hashable):

  ty ::= ("adt", name, (ty, ...)) | ("var", k) | ("ph", k)
       | ("scalar", name) | ("str",) | ("never",)
       | ("tuple", (ty, ...)) | ("array", ty, n) | ("slice", ty)
       | ("ref", mut, ty) | ("raw", mut, ty) | ("fnptr", (ty, ...))      last = return type
       | ("dyn", trait_name) | ("foreign", name)
  atom ::= (trait_name, (ty, ...))                 Self first, then the trait's own parameters

Lifetimes: fields and goals use 'static (or one forall<'a> around the goal), impl headers a
fresh lifetime parameter per reference; the model erases lifetimes (no modelled rule looks
at them and no region constraint can arise that way).
"""
from __future__ import annotations

import re

from . import sx

SCALARS = [("u8", "Uint(U8)"), ("u16", "Uint(U16)"), ("u32", "Uint(U32)"), ("i8", "Int(I8)"), ("i32", "Int(I32)"),
           ("bool", "Bool"), ("char", "Char"), ("f32", "Float(F32)"), ("usize", "Uint(Usize)")]
SCALAR_ID = {n: k for k, (n, _) in enumerate(SCALARS)}
SCALAR_BY_LABEL = {"scalar:" + lab: n for n, lab in SCALARS}

S_ARRAY, S_SLICE, S_REFNOT, S_REFMUT, S_RAWCONST, S_RAWMUT, S_STR, S_NEVER, S_TUPLE, S_FNPTR, S_SCALAR, S_FOREIGN, S_DYN, S_CONST = range(2001, 2015)

WK_ATTR = {"sized": "sized", "copy": "copy", "clone": "clone", "tuple": "tuple_trait", "fnptr": "fn_ptr_trait"}
WK_COQ = {"sized": "WSized", "copy": "WCopy", "clone": "WClone", "tuple": "WTuple", "fnptr": "WFnPtr"}


class Adt:
    def __init__(self, name, nparams=0, kind="struct", variants=None, phantom=False, upstream=False):
        self.name, self.nparams, self.kind, self.phantom = name, nparams, kind, phantom
        self.upstream = upstream      # #[upstream]: irrelevant to every modelled rule (the model ignores it)
        self.wcs = []                 # declared where-clauses `Tk: Trait` on the parameters: they matter for WF and implied
                                      # bounds only; the clause builders of Sized / Copy / Clone / auto traits ignore them,
                                      # and so does the model (closed goals are not WF-checked)
        self.variants = variants if variants is not None else [[]]


class Trait:
    def __init__(self, name, auto=False, coind=False, wk=None, nextra=0, obj=False):
        self.name, self.auto, self.coind, self.wk, self.nextra, self.obj = name, auto, coind, wk, nextra, obj


class Impl:
    def __init__(self, nvars, head, wcs=(), positive=True, upstream=False):
        self.nvars, self.head, self.wcs, self.positive = nvars, head, list(wcs), positive
        self.upstream = upstream      # #[upstream] impl (ImplType::External): still an explicit impl


class Prog:
    def __init__(self, adts, traits, impls, foreign=(), shape="?"):
        self.adts, self.traits, self.impls, self.foreign, self.shape = list(adts), list(traits), list(impls), list(foreign), shape

    def adt(self, name):
        return next(a for a in self.adts if a.name == name)

    def trait(self, name):
        return next(t for t in self.traits if t.name == name)

    def adt_sym(self, name):
        return [a.name for a in self.adts].index(name)

    def trait_sym(self, name):
        return 1000 + [t.name for t in self.traits].index(name)


# ---------------------------------------------------------------------------------------
# helpers on types
# ---------------------------------------------------------------------------------------

def children(t):
    k = t[0]
    if k == "adt":
        return list(t[2])
    if k == "tuple" or k == "fnptr":
        return list(t[1])
    if k == "array":
        return [t[1]]
    if k == "slice":
        return [t[1]]
    if k in ("ref", "raw"):
        return [t[2]]
    return []


def ty_vars(t, acc=None):
    acc = set() if acc is None else acc
    if t[0] == "var":
        acc.add(t[1])
    for c in children(t):
        ty_vars(c, acc)
    return acc


def has_lifetime(t):
    return t[0] in ("ref", "dyn") or any(has_lifetime(c) for c in children(t))


def has_ph(t):
    return t[0] == "ph" or any(has_ph(c) for c in children(t))


def chalk_size(t):
    """node count as chalk's TySizeVisitor sees it (upper estimate: array length counts 1)"""
    return 1 + (1 if t[0] == "array" else 0) + sum(chalk_size(c) for c in children(t))


def subst_ty(t, m):
    k = t[0]
    if k == "var":
        return m.get(t[1], t)
    if k == "adt":
        return ("adt", t[1], tuple(subst_ty(a, m) for a in t[2]))
    if k == "tuple" or k == "fnptr":
        return (k, tuple(subst_ty(a, m) for a in t[1]))
    if k == "array":
        return ("array", subst_ty(t[1], m), t[2])
    if k == "slice":
        return ("slice", subst_ty(t[1], m))
    if k in ("ref", "raw"):
        return (k, t[1], subst_ty(t[2], m))
    return t


def subst_atom(a, m):
    return (a[0], tuple(subst_ty(t, m) for t in a[1]))


def match_ty(p, t, m):
    """first-order matching of pattern p (variables ("var", k)) against t; extends dict m"""
    if p[0] == "var":
        if p[1] in m:
            return m[p[1]] == t
        m[p[1]] = t
        return True
    if p[0] != t[0]:
        return False
    k = p[0]
    if k == "adt":
        return p[1] == t[1] and len(p[2]) == len(t[2]) and all(match_ty(a, b, m) for a, b in zip(p[2], t[2]))
    if k == "tuple" or k == "fnptr":
        return len(p[1]) == len(t[1]) and all(match_ty(a, b, m) for a, b in zip(p[1], t[1]))
    if k == "array":
        return p[2] == t[2] and match_ty(p[1], t[1], m)
    if k == "slice":
        return match_ty(p[1], t[1], m)
    if k in ("ref", "raw"):
        return p[1] == t[1] and match_ty(p[2], t[2], m)
    return p == t


def match_atom(p, a):
    if p[0] != a[0] or len(p[1]) != len(a[1]):
        return None
    m = {}
    for x, y in zip(p[1], a[1]):
        if not match_ty(x, y, m):
            return None
    return m


# ---------------------------------------------------------------------------------------
# text
# ---------------------------------------------------------------------------------------

class LtCtx:
    """how lifetimes are written: a fixed name, or a fresh parameter per occurrence (impl headers)"""

    def __init__(self, fixed=None):
        self.fixed, self.fresh = fixed, []

    def next(self):
        if self.fixed is not None:
            return self.fixed
        n = "'l%d" % len(self.fresh)
        self.fresh.append(n)
        return n


def ty_text(t, vname, lt):
    k = t[0]
    if k == "var":
        return vname(t[1])
    if k == "ph":
        return "X%d" % t[1]
    if k == "adt":
        return t[1] if not t[2] else "%s<%s>" % (t[1], ", ".join(ty_text(a, vname, lt) for a in t[2]))
    if k == "scalar":
        return t[1]
    if k == "str":
        return "str"
    if k == "never":
        return "!"
    if k == "tuple":
        if len(t[1]) == 1:
            return "(%s,)" % ty_text(t[1][0], vname, lt)
        return "(%s)" % ", ".join(ty_text(a, vname, lt) for a in t[1])
    if k == "array":
        return "[%s; %d]" % (ty_text(t[1], vname, lt), t[2])
    if k == "slice":
        return "[%s]" % ty_text(t[1], vname, lt)
    if k == "ref":
        return "&%s %s%s" % (lt.next(), "mut " if t[1] else "", ty_text(t[2], vname, lt))
    if k == "raw":
        return "*%s %s" % ("mut" if t[1] else "const", ty_text(t[2], vname, lt))
    if k == "fnptr":
        return "fn(%s) -> %s" % (", ".join(ty_text(a, vname, lt) for a in t[1][:-1]), ty_text(t[1][-1], vname, lt))
    if k == "dyn":
        return "dyn %s + %s" % (t[1], lt.next())
    if k == "foreign":
        return t[1]
    raise ValueError(t)


def atom_text(a, vname, lt):
    tr, args = a
    s = ty_text(args[0], vname, lt) + ": " + tr
    if len(args) > 1:
        s += "<%s>" % ", ".join(ty_text(x, vname, lt) for x in args[1:])
    return s


def _ivar(k):
    return "T%d" % k


def to_text(p: Prog) -> str:
    out = []
    for f in p.foreign:
        out.append("extern type %s;" % f)
    st = LtCtx("'static")
    for a in p.adts:
        params = "<%s>" % ", ".join(_ivar(k) for k in range(a.nparams)) if a.nparams else ""
        attr = ("#[upstream] " if a.upstream else "") + ("#[phantom_data] " if a.phantom else "")
        wcs = (" where " + ", ".join(atom_text(w, _ivar, st) for w in a.wcs)) if a.wcs else ""
        if a.kind == "struct":
            fs = ", ".join("f%d: %s" % (k, ty_text(f, _ivar, st)) for k, f in enumerate(a.variants[0]))
            out.append("%sstruct %s%s%s { %s }" % (attr, a.name, params, wcs, fs))
        else:
            vs = ", ".join("V%d { %s }" % (n, ", ".join("f%d: %s" % (k, ty_text(f, _ivar, st)) for k, f in enumerate(v)))
                           for n, v in enumerate(a.variants))
            out.append("%senum %s%s%s { %s }" % (attr, a.name, params, wcs, vs))
    for t in p.traits:
        attrs = ""
        if t.auto:
            attrs += "#[auto] "
        if t.coind:
            attrs += "#[coinductive] "
        if t.wk:
            attrs += "#[lang(%s)] " % WK_ATTR[t.wk]
        params = "<%s>" % ", ".join("P%d" % k for k in range(t.nextra)) if t.nextra else ""
        out.append("%strait %s%s { }" % (attrs, t.name, params))
    for im in p.impls:
        lt = LtCtx()
        tr, args = im.head
        self_s = ty_text(args[0], _ivar, lt)
        trp = "<%s>" % ", ".join(ty_text(x, _ivar, lt) for x in args[1:]) if len(args) > 1 else ""
        # where-clauses may only mention lifetimes of the header (or 'static): a lifetime parameter that occurs only
        # in a where-clause is unconstrained (rustc E0207) and would make the subgoal non-ground
        lt_wc = LtCtx(lt.fresh[0] if lt.fresh else "'static")
        wc = (" where " + ", ".join(atom_text(w, _ivar, lt_wc) for w in im.wcs)) if im.wcs else ""
        ps = lt.fresh + [_ivar(k) for k in range(im.nvars)]
        params = "<%s>" % ", ".join(ps) if ps else ""
        out.append("%simpl%s %s%s%s for %s%s { }" % ("#[upstream] " if im.upstream else "", params, "" if im.positive else "!", tr, trp, self_s, wc))
    return "\n".join(out)


def goal_text(a, forall_lt=False) -> str:
    """a closed atom goal; placeholders become forall<X..>; lifetimes 'static or one forall<'a>"""
    phs = sorted({k for t in a[1] for k in _phs(t)})
    needs_lt = any(has_lifetime(t) for t in a[1])
    lt = LtCtx("'a" if (forall_lt and needs_lt) else "'static")
    s = atom_text(a, _ivar, lt)
    # type placeholders first: X_k must be the k-th variable of its universe (the dump reads it back by index)
    binders = ["X%d" % k for k in phs] + (["'a"] if (forall_lt and needs_lt) else [])
    if binders:
        s = "forall<%s> { %s }" % (", ".join(binders), s)
    return s


def _phs(t):
    if t[0] == "ph":
        return {t[1]}
    out = set()
    for c in children(t):
        out |= _phs(c)
    return out


# ---------------------------------------------------------------------------------------
# model (sx values of Chalk.Rules.Types)
# ---------------------------------------------------------------------------------------

def ty_model(t, p: Prog):
    k = t[0]
    if k == "var":
        return ("TVar", sx.Nat(t[1]))
    if k == "ph":
        return ("TPh", t[1])
    if k == "adt":
        return ("tapp", p.adt_sym(t[1]), [ty_model(a, p) for a in t[2]])
    if k == "scalar":
        return ("tapp", S_SCALAR, [("TCon", SCALAR_ID[t[1]])])
    if k == "str":
        return ("tapp", S_STR, [])
    if k == "never":
        return ("tapp", S_NEVER, [])
    if k == "tuple":
        return ("tapp", S_TUPLE, [ty_model(a, p) for a in t[1]])
    if k == "fnptr":
        return ("tapp", S_FNPTR, [ty_model(a, p) for a in t[1]])
    if k == "array":
        return ("tapp", S_ARRAY, [ty_model(t[1], p), ("tapp", S_CONST, [("TCon", t[2])])])
    if k == "slice":
        return ("tapp", S_SLICE, [ty_model(t[1], p)])
    if k == "ref":
        return ("tapp", S_REFMUT if t[1] else S_REFNOT, [ty_model(t[2], p)])
    if k == "raw":
        return ("tapp", S_RAWMUT if t[1] else S_RAWCONST, [ty_model(t[2], p)])
    if k == "dyn":
        return ("tapp", S_DYN, [("TCon", p.trait_sym(t[1]))])
    if k == "foreign":
        return ("tapp", S_FOREIGN, [("TCon", p.foreign.index(t[1]))])
    raise ValueError(t)


def atom_model(a, p: Prog):
    return ("tapp", p.trait_sym(a[0]), [ty_model(t, p) for t in a[1]])


def to_model(p: Prog):
    adts = [("mkAdt", i, sx.Nat(a.nparams), a.kind == "struct", a.phantom, [[ty_model(f, p) for f in v] for v in a.variants])
            for i, a in enumerate(p.adts)]
    traits = [("mkTrait", 1000 + j, t.auto, t.coind, ("Some", WK_COQ[t.wk]) if t.wk else "None") for j, t in enumerate(p.traits)]
    impls = [("mkImpl", im.positive, atom_model(im.head, p), [atom_model(w, p) for w in im.wcs]) for im in p.impls]
    return ("mkDecls", adts, traits, impls)


# ---------------------------------------------------------------------------------------
# the `rules` harness dump -> abstract syntax
# ---------------------------------------------------------------------------------------

class Untranslatable(Exception):
    pass


def dump_ty(t):
    h = sx.head(t)
    if h == "BV":
        return ("var", t[1])
    if h == "Ph":
        return ("ph", t[2])
    if h == "App":
        label, args = str(t[1]), [a for a in t[2] if a != "Lt"]
        if label.startswith("adt:"):
            return ("adt", label[4:], tuple(dump_ty(a) for a in args))
        if label in SCALAR_BY_LABEL:
            return ("scalar", SCALAR_BY_LABEL[label])
        if label.startswith("tuple:"):
            return ("tuple", tuple(dump_ty(a) for a in args))
        if label == "array":
            m = re.match(r"const:(\d+)$", str(args[1][1])) if sx.head(args[1]) == "App" else None
            if not m:
                raise Untranslatable(sx.to_sexp(t))
            return ("array", dump_ty(args[0]), int(m.group(1)))
        if label == "slice":
            return ("slice", dump_ty(args[0]))
        if label.startswith("ref:"):
            return ("ref", label == "ref:Mut", dump_ty(args[0]))
        if label.startswith("raw:"):
            return ("raw", label == "raw:Mut", dump_ty(args[0]))
        if label == "str":
            return ("str",)
        if label == "never":
            return ("never",)
        if label.startswith("fnptr:"):
            if label != 'fnptr:Safe:"rust":false':
                raise Untranslatable(label)
            return ("fnptr", tuple(dump_ty(a) for a in args))
        if label.startswith("dyn:"):
            return ("dyn", label[4:])
        if label.startswith("foreign:"):
            return ("foreign", label[8:])
    raise Untranslatable(sx.to_sexp(t))


def dump_atom(a):
    if sx.head(a) != "Impl":
        return None
    return (str(a[1]), tuple(dump_ty(t) for t in a[2]))


def real_bodies(goalres):
    """`(Clauses atom [clause ...])` -> (atom, set of frozensets of body atoms) for the clauses
    whose head matches the ground goal atom; clauses with a FromEnv condition (the trait's
    `Implemented :- FromEnv` clause: cannot fire in the empty environment of a closed goal) are
    dropped; any other non-`Implemented` condition makes the dump untranslatable."""
    atom = dump_atom(goalres[1])
    bodies = []
    for c in goalres[2]:
        conds = c[3]
        if any(sx.head(x) == "Other" and str(x[1]).startswith("FromEnv(") for x in conds):
            continue
        head = dump_atom(c[2])
        if head is None:
            continue
        m = match_atom(head, atom)
        if m is None:
            continue
        body = []
        for x in conds:
            b = dump_atom(x)
            if b is None:
                raise Untranslatable(sx.to_sexp(x))
            b = subst_atom(b, m)
            if any(ty_vars(t) for t in b[1]):
                raise Untranslatable("non-ground body " + sx.to_sexp(x))
            body.append(b)
        bodies.append(tuple(body))
    return atom, bodies


# ---------------------------------------------------------------------------------------
# random generation
# ---------------------------------------------------------------------------------------

class Gen:
    """profile "auto": auto + coinductive traits (C05); profile "builtin": lang-item traits (C08)"""

    def __init__(self, rng, profile):
        self.rng, self.profile = rng, profile

    # -- types -------------------------------------------------------------------------
    def leaf(self, p, nvars, allow_unsized=True):
        r = self.rng.random()
        if nvars and r < 0.3:
            return ("var", self.rng.randrange(nvars))
        if r < 0.55:
            cs = [a for a in p.adts if a.nparams == 0]
            if cs:
                return ("adt", self.rng.choice(cs).name, ())
        if r < 0.8:
            return ("scalar", self.rng.choice(["u8", "u8", "u16", "i32", "bool", "f32"]))
        if r < 0.86 and allow_unsized:
            return ("str",)
        if r < 0.9:
            return ("never",)
        if r < 0.94 and p.foreign:
            return ("foreign", self.rng.choice(p.foreign))
        objs = [t for t in p.traits if t.obj]
        if objs and allow_unsized and r < 0.97:
            return ("dyn", self.rng.choice(objs).name)
        return ("tuple", ())

    def ty(self, p, nvars, depth):
        if depth <= 1 or self.rng.random() < 0.25:
            return self.leaf(p, nvars)
        r = self.rng.random()
        sub = lambda: self.ty(p, nvars, depth - 1)
        if r < 0.3:
            cs = [a for a in p.adts if a.nparams > 0]
            if cs:
                a = self.rng.choice(cs)
                return ("adt", a.name, tuple(sub() for _ in range(a.nparams)))
        if r < 0.5:
            return ("tuple", tuple(sub() for _ in range(self.rng.choice([1, 2, 2, 3]))))
        if r < 0.62:
            return ("array", sub(), self.rng.choice([0, 2, 3]))
        if r < 0.72:
            return ("slice", sub())
        if r < 0.82:
            return ("ref", self.rng.random() < 0.4, sub())
        if r < 0.9:
            return ("raw", self.rng.random() < 0.5, sub())
        if r < 0.97:
            return ("fnptr", tuple(sub() for _ in range(self.rng.choice([1, 2, 2, 3]))))
        return self.leaf(p, nvars)

    # -- programs ----------------------------------------------------------------------
    def program(self) -> Prog:
        rng = self.rng
        p = Prog([], [], [], [], self.profile)
        if rng.random() < 0.4:
            p.foreign = ["Ext"]
        # traits
        if self.profile == "auto":
            p.traits.append(Trait("Send", auto=True))
            if rng.random() < 0.35:
                p.traits.append(Trait("Sync", auto=True))
            for j in range(rng.choice([0, 1, 1, 2])):
                p.traits.append(Trait("C%d" % j, coind=True, nextra=1 if rng.random() < 0.2 else 0))
            if rng.random() < 0.3:
                p.traits.append(Trait("Sized", wk="sized"))
        else:
            for name, wk, pr in (("Sized", "sized", 0.9), ("Copy", "copy", 0.85), ("Clone", "clone", 0.7),
                                 ("Tuple", "tuple", 0.45), ("FnPtr", "fnptr", 0.45)):
                if rng.random() < pr:
                    p.traits.append(Trait(name, wk=wk))
            if not any(t.wk for t in p.traits):
                p.traits.append(Trait("Sized", wk="sized"))
            if rng.random() < 0.3:
                p.traits.append(Trait("Send", auto=True))
        if rng.random() < 0.5:
            p.traits.append(Trait("Foo"))
        if rng.random() < 0.5:
            p.traits.append(Trait("Obj", obj=True))
        rng.shuffle(p.traits)
        # ADTs: names first (fields may refer to any ADT: recursion and mutual recursion)
        n = rng.randint(3, 6)
        for i in range(n):
            np = rng.choice([0, 0, 0, 1, 1, 2])
            kind = "enum" if rng.random() < 0.3 else "struct"
            p.adts.append(Adt("S%d" % i, np, kind, None, phantom=(np > 0 and kind == "struct" and rng.random() < 0.08),
                              upstream=rng.random() < 0.25))
        for a in p.adts:
            nv = 1 if a.kind == "struct" else rng.choice([1, 2, 2, 3])
            a.variants = []
            for _ in range(nv):
                if a.phantom:
                    a.variants.append([])
                    continue
                nf = rng.choice([0, 1, 1, 2, 2, 3])
                a.variants.append([self.field(p, a) for _ in range(nf)])
        if self.profile == "builtin":
            self.add_adt_bounds(p)
        # deliberate cycles
        if self.profile == "auto" or rng.random() < 0.3:
            self.add_cycle(p)
        # impls
        self.add_impls(p)
        return p

    def add_adt_bounds(self, p):
        """declared where-clauses `Tk: Sized / Copy / Clone / <auto>` on ADT parameters, and structs whose tail
        field is exactly such a parameter (the clause builders must not trust the declared bound)"""
        rng = self.rng
        bound_traits = [t for t in p.traits if (t.wk in ("sized", "copy", "clone") or t.auto) and t.nextra == 0]
        if not bound_traits:
            return
        for a in p.adts:
            if a.nparams == 0 or a.phantom or rng.random() < 0.45:
                continue
            for k in range(a.nparams):
                for t in bound_traits:
                    if rng.random() < (0.6 if t.wk == "sized" else 0.3):
                        a.wcs.append((t.name, (("var", k),)))
            if a.wcs and a.kind == "struct" and rng.random() < 0.7:
                k = rng.choice([w[1][0][1] for w in a.wcs])
                fs = a.variants[0]
                if rng.random() < 0.8:
                    fs.append(("var", k))                       # the tail is exactly the bounded parameter
                else:
                    fs.insert(0, ("var", k))

    def bounded_goals(self, p, n):
        """goals that instantiate a declared-bounded parameter with unsized / unconstrained types, also nested"""
        rng = self.rng
        out = []
        ads = [a for a in p.adts if a.wcs]
        ts = [t for t in p.traits if t.wk in ("sized", "copy", "clone")]
        if not ads or not ts:
            return out
        objs = [t for t in p.traits if t.obj]
        for _ in range(n):
            a = rng.choice(ads)
            un = [("slice", ("scalar", "u8")), ("str",), ("ph", 0), ("slice", ("str",)), ("tuple", (("scalar", "u8"), ("str",)))]
            if objs:
                un.append(("dyn", objs[0].name))
            if p.foreign:
                un.append(("foreign", p.foreign[0]))
            args = tuple(rng.choice(un) if rng.random() < 0.8 else self.leaf(p, 0, False) for _ in range(a.nparams))
            t0 = ("adt", a.name, args)
            r = rng.random()
            if r < 0.5:
                st = t0
            elif r < 0.65:
                st = ("tuple", (("scalar", "u8"), t0))
            elif r < 0.75:
                st = ("array", t0, 2)
            else:
                ws = [b for b in p.adts if b.nparams == 1 and not b.phantom]
                st = ("adt", rng.choice(ws).name, (t0,)) if ws else ("tuple", (t0,))
            tr = rng.choice(ts) if rng.random() < 0.4 else next((t for t in ts if t.wk == "sized"), ts[0])
            g = (tr.name, (st,))
            if g not in out:
                out.append(g)
        return out

    def field(self, p, a):
        r = self.rng.random()
        if r < 0.25:
            # a (mutually) recursive occurrence, usually behind a pointer-like constructor
            b = self.rng.choice(p.adts)
            args = tuple(("var", self.rng.randrange(a.nparams)) if a.nparams and self.rng.random() < 0.7 else self.leaf(p, 0, False)
                         for _ in range(b.nparams))
            t = ("adt", b.name, args)
            w = self.rng.random()
            if w < 0.3:
                return ("ref", self.rng.random() < 0.3, t)
            if w < 0.45:
                return ("raw", False, t)
            if w < 0.6:
                return ("tuple", (t, self.leaf(p, a.nparams, False)))
            if w < 0.7:
                return ("array", t, 2)
            return t
        return self.ty(p, a.nparams, 2)

    def add_cycle(self, p):
        rng = self.rng
        cs = [a for a in p.adts if a.nparams == 0 and a.kind == "struct" and not a.phantom]
        if len(cs) >= 2:
            k = rng.randint(2, min(3, len(cs)))
            ring = rng.sample(cs, k)
            for i, a in enumerate(ring):
                a.variants[0].insert(rng.randint(0, len(a.variants[0])), ("adt", ring[(i + 1) % k].name, ()))
            if rng.random() < 0.5:
                # a root that enters the ring at some member
                roots = [a for a in p.adts if a not in ring and a.kind == "struct" and not a.phantom]
                if roots:
                    rng.choice(roots).variants[0].append(("adt", rng.choice(ring).name, ()))

    def impl_self(self, p, nv):
        """a self type for an impl: (type, nvars) with all variables used"""
        rng = self.rng
        r = rng.random()
        vs = [("var", k) for k in range(nv)]
        if nv and r < 0.03:
            return ("var", 0), 1            # a blanket impl: not an impl for any type constructor
        if r < 0.45:
            a = rng.choice(p.adts)
            args = tuple(vs[i] if i < nv else self.leaf(p, 0, False) for i in range(a.nparams))
            t = ("adt", a.name, args)
        elif r < 0.6:
            t = ("scalar", rng.choice(["u8", "u16", "i32", "bool"]))
        elif r < 0.7:
            k = rng.choice([1, 2, 2, 3])
            t = ("tuple", tuple(vs[i] if i < nv else self.leaf(p, 0, False) for i in range(k)))
        elif r < 0.76:
            t = ("slice", vs[0] if nv else self.leaf(p, 0, False))
        elif r < 0.82:
            t = ("array", vs[0] if nv else self.leaf(p, 0, False), 2)
        elif r < 0.89:
            t = ("ref", rng.random() < 0.4, vs[0] if nv else self.leaf(p, 0))
        elif r < 0.94:
            t = ("raw", rng.random() < 0.5, vs[0] if nv else self.leaf(p, 0))
        elif r < 0.97:
            t = ("fnptr", tuple(vs[i] if i < nv else self.leaf(p, 0, False) for i in range(rng.choice([1, 2]))))
        elif r < 0.985:
            t = ("str",)
        else:
            t = ("never",) if not p.foreign else ("foreign", p.foreign[0])
        used = ty_vars(t)
        ren = {k: ("var", i) for i, k in enumerate(sorted(used))}
        return subst_ty(t, ren), len(used)

    def add_impls(self, p):
        rng = self.rng
        targets = [t for t in p.traits if not t.obj]
        if not targets:
            return
        for _ in range(rng.randint(2, 7)):
            t = rng.choice(targets)
            st, nv = self.impl_self(p, rng.choice([0, 0, 1, 1, 2]))
            args = [st] + [self.leaf(p, nv, False) for _ in range(t.nextra)]
            positive = True
            if t.auto and rng.random() < 0.5:
                positive = False
            wcs = []
            if positive:
                for _ in range(rng.choice([0, 0, 1, 1, 2])):
                    # a coinductive head may only depend on coinductive traits (no mixed cycles);
                    # where-clauses speak about the impl's parameters or about closed small types
                    cands = [u for u in targets if ((u.auto or u.coind) or not (t.auto or t.coind))]
                    u = rng.choice(cands)
                    if nv and rng.random() < 0.75:
                        wt = ("var", rng.randrange(nv))
                        if rng.random() < 0.2:
                            wt = rng.choice([("slice", wt), ("tuple", (wt, wt)), ("ref", False, wt), ("array", wt, 2)])
                    else:
                        wt = self.ty(p, 0, 2)
                    wcs.append((u.name, tuple([wt] + [self.leaf(p, nv, False) for _ in range(u.nextra)])))
            p.impls.append(Impl(nv, (t.name, tuple(args)), wcs, positive, upstream=rng.random() < 0.35))
        # coinductive traits: explicit cycles through impls (the coinductive_unsound shapes:
        # a cycle that also depends on something false)
        cts = [t for t in p.traits if t.coind and t.nextra == 0]
        cs = [a for a in p.adts if a.nparams == 0]
        if cts and len(cs) >= 2 and rng.random() < 0.8:
            t = rng.choice(cts)
            a, b = rng.sample(cs, 2)
            A, B = ("adt", a.name, ()), ("adt", b.name, ())
            p.impls.append(Impl(0, (t.name, (A,)), [(t.name, (B,))]))
            extra = []
            r = rng.random()
            if r < 0.35 and len(cs) >= 3:
                c = rng.choice([x for x in cs if x not in (a, b)])
                extra = [(t.name, (("adt", c.name, ()),))]         # usually false: no impl for c
            elif r < 0.5:
                u = rng.choice(cts)
                extra = [(u.name, (A,))] if u.nextra == 0 else []
            p.impls.append(Impl(0, (t.name, (B,)), [(t.name, (A,))] + extra))

    # -- goals -------------------------------------------------------------------------
    def goal_traits(self, p):
        if self.profile == "auto":
            ts = [t for t in p.traits if t.auto or t.coind]
            return ts + [t for t in p.traits if t.auto] * 2
        ts = [t for t in p.traits if t.wk]
        return ts * 3 + [t for t in p.traits if t.auto]

    def goal(self, p, max_size=7):
        rng = self.rng
        ts = self.goal_traits(p)
        for _ in range(50):
            t = rng.choice(ts)
            d = rng.choice([1, 2, 2, 3, 3, 4])
            st = self.ty(p, 0, d)
            if rng.random() < 0.06:
                st = rng.choice([("ph", 0), ("tuple", (("ph", 0), ("scalar", "u8"))), ("tuple", (("scalar", "u8"), ("ph", 0))), ("ref", False, ("ph", 0))])
            if chalk_size(st) > max_size:
                continue
            args = [st] + [self.leaf(p, 0, False) for _ in range(t.nextra)]
            return (t.name, tuple(args))
        return (ts[0].name, (("tuple", ()),) + tuple(("tuple", ()) for _ in range(ts[0].nextra)))

    def adt_goals(self, p):
        """every closed ADT under every goal trait: the cycles live here"""
        out = []
        for t in self.goal_traits(p):
            if t.nextra:
                continue
            for a in p.adts:
                if a.nparams == 0:
                    g = (t.name, (("adt", a.name, ()),))
                    if g not in out:
                        out.append(g)
        return out


# ---------------------------------------------------------------------------------------
# deliberate shape: a coinductive cycle that leans on something false, and a bystander that
# reaches the cycle only through a non-head member (C05, second sentence: "a result that relied
# on a cyclic assumption that later turned out false is never reported or reused").  The
# recursive solver pops obligations from the back, so every field / where-clause ORDER of the
# small items is a different search: the family is enumerated over all of them.
# ---------------------------------------------------------------------------------------

def _perms(xs):
    import itertools
    return [list(p) for p in itertools.permutations(xs)]


def cycle_fail_programs(rng, n_extra):
    """[(Prog, [goal atom ...])]: the 6 field orders of the minimal witness always, plus
    `n_extra` random members of the wider family (ring of 3, #[coinductive] trait with
    where-clause orders, leaf behind a tuple, bystander chains, enums, a leaf that does hold)."""
    T = lambda n: ("adt", n, ())
    out = []

    def auto_prog(node_fields, ring, label_target, leaf_ok=False, label_extra=None, enum_node=False, chain=False):
        # ring = names of the cycle members after Node (Node -> ring[0] -> ... -> Node)
        adts = [Adt("NotSend")]
        adts.append(Adt("Node", 0, "enum" if enum_node else "struct", [node_fields] if not enum_node else [[f] for f in node_fields]))
        for i, r in enumerate(ring):
            nxt = ring[i + 1] if i + 1 < len(ring) else "Node"
            adts.append(Adt(r, 0, "struct", [[T(nxt)]]))
        lf = [T(label_target)] + ([label_extra] if label_extra else [])
        if label_extra and rng.random() < 0.5:
            lf.reverse()
        adts.append(Adt("Label", 0, "struct", [lf]))
        if chain:
            adts.append(Adt("Label2", 0, "struct", [[T("Label")]]))
        impls = [] if leaf_ok else [Impl(0, ("Send", (T("NotSend"),)), [], False)]
        p = Prog(adts, [Trait("Send", auto=True)], impls, [], "cycle-fail")
        goals = [("Send", (T("Node"),)), ("Send", (T(ring[0]),)), ("Send", (T("Label"),))]
        if chain:
            goals.append(("Send", (T("Label2"),)))
        return p, goals

    def co_prog(wcs_order, extra_trait=False):
        # #[coinductive] trait C: impl C for Node where <order of [Bad: C, Label: C, Edge: C]>; Bad has no impl
        adts = [Adt("Bad"), Adt("Node"), Adt("Edge"), Adt("Label")]
        wc = {"bad": ("C", (T("Bad"),)), "label": ("C", (T("Label"),)), "edge": ("C", (T("Edge"),))}
        impls = [Impl(0, ("C", (T("Node"),)), [wc[k] for k in wcs_order]),
                 Impl(0, ("C", (T("Edge"),)), [("C", (T("Node"),))]),
                 Impl(0, ("C", (T("Label"),)), [("C", (T("Edge"),))])]
        p = Prog(adts, [Trait("C", coind=True)], impls, [], "cycle-fail-co")
        return p, [("C", (T("Node"),)), ("C", (T("Edge"),)), ("C", (T("Label"),))]

    base = [T("NotSend"), T("Label"), T("Edge")]
    for fs in _perms(base):
        out.append(auto_prog(fs, ["Edge"], "Edge"))
    for _ in range(n_extra):
        r = rng.random()
        if r < 0.3:
            ring = ["E1", "E2"]
            fs = [T("NotSend"), T("Label"), T("E1")]
            rng.shuffle(fs)
            out.append(auto_prog(fs, ring, rng.choice(ring)))
        elif r < 0.55:
            order = ["bad", "label", "edge"]
            rng.shuffle(order)
            out.append(co_prog(order))
        elif r < 0.7:
            leaf = rng.choice([("tuple", (("scalar", "u8"), T("NotSend"))), ("array", T("NotSend"), 2), ("ref", False, T("NotSend"))])
            fs = [leaf, T("Label"), T("Edge")]
            rng.shuffle(fs)
            out.append(auto_prog(fs, ["Edge"], "Edge", label_extra=("scalar", "u8")))
        elif r < 0.82:
            fs = list(base)
            rng.shuffle(fs)
            out.append(auto_prog(fs, ["Edge"], "Edge", chain=True))
        elif r < 0.92:
            fs = list(base)
            rng.shuffle(fs)
            out.append(auto_prog(fs, ["Edge"], "Edge", enum_node=True))
        else:
            fs = list(base)
            rng.shuffle(fs)
            out.append(auto_prog(fs, ["Edge"], "Edge", leaf_ok=True))
    return out


# closed conjunction goals of literals: [(negated, atom), ...]

def conj_text(lits):
    return ", ".join(("not { %s }" % goal_text(a)) if neg else goal_text(a) for neg, a in lits)


def conj_model(lits, p):
    gs = [("RNot", ("RAtom", atom_model(a, p))) if neg else ("RAtom", atom_model(a, p)) for neg, a in lits]
    out = gs[-1]
    for g in reversed(gs[:-1]):
        out = ("RAnd", g, out)
    return out
