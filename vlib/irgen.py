"""Seeded generators of chalk-ir terms in the shared syntax (see coq/Ir/Syntax.v, harness/src/ir.rs).

A term is  ('Var', 'STy'|'SLt', db, idx) | ('CVar', db, idx, cty) | ('Node', head, [children]).
All generated terms are well-sorted (the Rust conversion accepts them).  Every random choice
comes from the rng passed in."""
from __future__ import annotations

from .sx import Pair  # noqa: F401  (re-export convenience)

INTS = ["Isize", "I8", "I16", "I32", "I64", "I128"]
UINTS = ["Usize", "U8", "U16", "U32", "U64", "U128"]
FLOATS = ["F16", "F32", "F64", "F128"]
TVKS = ["General", "Integer", "FloatVar"]


def node(head, children=()):
    return ("Node", head, list(children))


def is_node(t, name=None):
    if not (isinstance(t, tuple) and t[0] == "Node"):
        return False
    if name is None:
        return True
    h = t[1]
    return (h if isinstance(h, str) else h[0]) == name


def head_name(t):
    if isinstance(t, tuple) and t[0] == "Node":
        h = t[1]
        return h if isinstance(h, str) else h[0]
    return t[0]


USIZE = node(("HScalar", ("Uint", "Usize")))

TY_HEADS = ["HAdt", "HAssocTy", "HScalar", "HTuple", "HArray", "HSlice", "HRaw", "HRef", "HOpaqueTy", "HFnDef",
            "HStr", "HNever", "HClosure", "HCoroutine", "HCoroutineWitness", "HForeign", "HError", "HPlaceholder",
            "HDyn", "HProjection", "HOpaqueAlias", "HFnPtr", "HInfer", "Var"]
LT_HEADS = ["HLInfer", "HLPlaceholder", "HLStatic", "HLErased", "HLError", "Var"]
CONST_HEADS = ["HCInfer", "HCPlaceholder", "HCConcrete", "CVar"]


class IrGen:
    def __init__(self, rng, max_depth=4, max_width=3, nids=4, free_levels=2, nidx=3, nuniv=3, ninfer=4,
                 bound_vars=True, infer=True, placeholders=True, aliases=True, dyn=True, fnptr=True,
                 errors=True, const_ty_flags=False, leaf_bias=0.35, ty_heads=None, disciplined=False, infer_disjoint=False):
        self.r = rng
        self.max_depth = max_depth
        self.max_width = max_width
        self.nids = nids
        self.free_levels = free_levels
        self.nidx = nidx
        self.nuniv = nuniv
        self.ninfer = ninfer
        self.bound_vars = bound_vars
        self.infer = infer
        self.placeholders = placeholders
        self.aliases = aliases
        self.dyn = dyn
        self.fnptr = fnptr
        self.errors = errors
        self.const_ty_flags = const_ty_flags
        self.leaf_bias = leaf_bias
        self.ty_heads = ty_heads
        # disciplined: variable index determines its kind (i%3: 0 type, 1 lifetime, 2 const) and const
        # variables have type usize, so that [VTy, VLt, VConst] * 2 are valid binder kinds for any level
        self.disciplined = disciplined
        # infer_disjoint: type variables ?0,?1 (General) ?2 (Integer) ?3 (Float), lifetime variables ?4,?5, const ?6,?7
        self.infer_disjoint = infer_disjoint

    # -- helpers -----------------------------------------------------------------------
    def id(self):
        return self.r.randrange(self.nids)

    def bv(self, binders, kind=0):
        levels = binders + self.free_levels
        if self.disciplined:
            return self.r.randrange(levels), 3 * self.r.randrange(2) + kind
        return self.r.randrange(levels), self.r.randrange(self.nidx)

    def mut(self):
        return self.r.choice(["Mut", "Not"])

    def scalar(self):
        k = self.r.randrange(5)
        if k == 0:
            return "Bool"
        if k == 1:
            return "Char"
        if k == 2:
            return ("Int", self.r.choice(INTS))
        if k == 3:
            return ("Uint", self.r.choice(UINTS))
        return ("Float", self.r.choice(FLOATS))

    def vkind(self):
        k = self.r.randrange(4)
        if k <= 1:
            return ("VTy", self.r.choice(TVKS) if self.r.random() < 0.3 else "General")
        if k == 2:
            return "VLt"
        return "VConst"

    def vkinds(self, lo=0, hi=3):
        return [self.vkind() for _ in range(self.r.randint(lo, hi))]

    # -- leaves ------------------------------------------------------------------------
    def ty_leaf(self, binders):
        opts = ["scalar", "str", "never", "foreign", "adt0"]
        if self.bound_vars and (binders + self.free_levels) > 0:
            opts += ["var", "var"]
        if self.infer:
            opts += ["infer"]
        if self.placeholders:
            opts += ["ph"]
        if self.errors:
            opts += ["err"]
        k = self.r.choice(opts)
        if k == "scalar":
            return node(("HScalar", self.scalar()))
        if k == "str":
            return node("HStr")
        if k == "never":
            return node("HNever")
        if k == "foreign":
            return node(("HForeign", self.id()))
        if k == "adt0":
            return node(("HAdt", self.id()))
        if k == "var":
            d, i = self.bv(binders)
            return ("Var", "STy", d, i)
        if k == "infer":
            if self.infer_disjoint:
                v = self.r.randrange(4)
                return node(("HInfer", v, ["General", "General", "Integer", "FloatVar"][v]))
            return node(("HInfer", self.r.randrange(self.ninfer), self.r.choice(TVKS)))
        if k == "ph":
            return node(("HPlaceholder", self.r.randrange(self.nuniv), self.r.randrange(self.nidx)))
        return node("HError")

    def lifetime(self, binders=0):
        opts = ["static", "erased"]
        if self.bound_vars and (binders + self.free_levels) > 0:
            opts += ["var", "var"]
        if self.infer:
            opts += ["infer"]
        if self.placeholders:
            opts += ["ph"]
        if self.errors:
            opts += ["err"]
        k = self.r.choice(opts)
        if k == "static":
            return node("HLStatic")
        if k == "erased":
            return node("HLErased")
        if k == "var":
            d, i = self.bv(binders, 1)
            return ("Var", "SLt", d, i)
        if k == "infer":
            return node(("HLInfer", 4 + self.r.randrange(2) if self.infer_disjoint else self.r.randrange(self.ninfer)))
        if k == "ph":
            return node(("HLPlaceholder", self.r.randrange(self.nuniv), self.r.randrange(self.nidx)))
        return node("HLError")

    def const_ty(self):
        """Const types are closed (chalk's own folders rely on it); mostly usize."""
        if self.const_ty_flags and self.r.random() < 0.4:
            k = self.r.randrange(4)
            if k == 0 and self.infer:
                return node(("HInfer", self.r.randrange(self.ninfer), "General"))
            if k == 1 and self.placeholders:
                return node(("HPlaceholder", self.r.randrange(self.nuniv), self.r.randrange(self.nidx)))
            if k == 2 and self.errors:
                return node("HError")
            return node(("HRef", "Not"), [node("HLStatic"), node(("HScalar", "Bool"))])
        return USIZE

    def const(self, binders=0):
        opts = ["conc", "conc"]
        if self.bound_vars and (binders + self.free_levels) > 0:
            opts += ["var"]
        if self.infer:
            opts += ["infer"]
        if self.placeholders:
            opts += ["ph"]
        k = self.r.choice(opts)
        cty = self.const_ty()
        if k == "conc":
            return node(("HCConcrete", self.r.randrange(4)), [cty])
        if k == "var":
            d, i = self.bv(binders, 2)
            return ("CVar", d, i, USIZE if self.disciplined else cty)
        if k == "infer":
            return node(("HCInfer", 6 + self.r.randrange(2) if self.infer_disjoint else self.r.randrange(self.ninfer)), [USIZE if self.infer_disjoint else cty])
        return node(("HCPlaceholder", self.r.randrange(self.nuniv), self.r.randrange(self.nidx)), [cty])

    # -- compound ------------------------------------------------------------------------
    def garg(self, d, binders=0):
        k = self.r.random()
        if k < 0.7:
            return self.ty(d, binders)
        if k < 0.87:
            return self.lifetime(binders)
        return self.const(binders)

    def subst(self, d, binders=0, lo=0, hi=None):
        hi = self.max_width if hi is None else hi
        return [self.garg(d, binders) for _ in range(self.r.randint(lo, hi))]

    def alias(self, d, binders=0):
        h = "HProjection" if self.r.random() < 0.6 else "HOpaqueAlias"
        return node((h, self.id()), self.subst(d - 1, binders, 1 if h == "HProjection" else 0))

    def trait_ref(self, d, binders=0):
        return node(("HTraitRef", self.id()), [self.ty(d - 1, binders)] + self.subst(d - 1, binders, 0, max(0, self.max_width - 1)))

    def wc(self, d, binders=0):
        k = self.r.randrange(6)
        if k <= 2:
            return node("HImplemented", [self.trait_ref(d, binders)])
        if k == 3 and self.aliases:
            return node("HAliasEq", [self.alias(d, binders), self.ty(d - 1, binders)])
        if k == 4:
            return node("HLtOutlives", [self.lifetime(binders), self.lifetime(binders)])
        return node("HTyOutlives", [self.ty(d - 1, binders), self.lifetime(binders)])

    def qwc(self, d, binders=0):
        return node(("HBinders", self.vkinds(0, 2)), [self.wc(d, binders + 1)])

    def dyn_ty(self, d, binders=0):
        qs = [self.qwc(d - 1, binders + 1) for _ in range(self.r.choice([0, 1, 1, 2, 2, 3]))]
        b = node(("HBinders", [("VTy", "General")]), [node("HList", qs)])
        return node("HDyn", [b, self.lifetime(binders)])

    def fn_ptr(self, d, binders=0):
        nb = self.r.randrange(3)
        head = ("HFnPtr", nb, self.r.choice(["AbiRust", "AbiC"]), self.r.choice(["Safe", "Unsafe"]), self.r.random() < 0.2)
        # FnSubst holds parameter types and the return type last; lifetimes may appear too
        args = [self.ty(d - 1, binders + 1) for _ in range(self.r.randint(1, self.max_width))]
        return node(head, args)

    def ty(self, d=None, binders=0):
        d = self.max_depth if d is None else d
        if d <= 0 or self.r.random() < self.leaf_bias:
            return self.ty_leaf(binders)
        opts = ["adt", "adt", "tuple", "array", "slice", "raw", "ref", "ref", "assoc", "opaquety", "fndef", "closure",
                "coroutine", "witness"]
        if self.aliases:
            opts += ["alias"]
        if self.dyn:
            opts += ["dyn"]
        if self.fnptr:
            opts += ["fnptr"]
        if self.ty_heads:
            opts = [o for o in opts if o in self.ty_heads] or opts
        k = self.r.choice(opts)
        if k == "adt":
            return node(("HAdt", self.id()), self.subst(d - 1, binders))
        if k == "tuple":
            s = [self.ty(d - 1, binders) for _ in range(self.r.randint(0, self.max_width))]
            return node(("HTuple", len(s)), s)
        if k == "array":
            return node("HArray", [self.ty(d - 1, binders), self.const(binders)])
        if k == "slice":
            return node("HSlice", [self.ty(d - 1, binders)])
        if k == "raw":
            return node(("HRaw", self.mut()), [self.ty(d - 1, binders)])
        if k == "ref":
            return node(("HRef", self.mut()), [self.lifetime(binders), self.ty(d - 1, binders)])
        if k == "assoc":
            return node(("HAssocTy", self.id()), self.subst(d - 1, binders))
        if k == "opaquety":
            return node(("HOpaqueTy", self.id()), self.subst(d - 1, binders))
        if k == "fndef":
            return node(("HFnDef", self.id()), self.subst(d - 1, binders))
        if k == "closure":
            return node(("HClosure", self.id()), self.subst(d - 1, binders))
        if k == "coroutine":
            return node(("HCoroutine", self.id()), self.subst(d - 1, binders))
        if k == "witness":
            return node(("HCoroutineWitness", self.id()), self.subst(d - 1, binders))
        if k == "alias":
            return self.alias(d, binders)
        if k == "dyn":
            return self.dyn_ty(d, binders)
        return self.fn_ptr(d, binders)

    # -- goals and clauses -----------------------------------------------------------------
    def domain_goal(self, d, binders=0):
        k = self.r.randrange(14)
        if k <= 3:
            return node("HHolds", [self.wc(d, binders)])
        if k == 4:
            return node("HWfTy", [self.ty(d - 1, binders)])
        if k == 5:
            return node("HWfTrait", [self.trait_ref(d, binders)])
        if k == 6:
            return node("HFromEnvTy", [self.ty(d - 1, binders)])
        if k == 7:
            return node("HFromEnvTrait", [self.trait_ref(d, binders)])
        if k == 8 and self.aliases:
            return node("HNormalize", [self.alias(d, binders), self.ty(d - 1, binders)])
        if k == 9:
            return node(self.r.choice(["HIsLocal", "HIsUpstream", "HIsFullyVisible", "HDownstreamType"]), [self.ty(d - 1, binders)])
        if k == 10:
            return node("HLocalImplAllowed", [self.trait_ref(d, binders)])
        if k == 11:
            return node(self.r.choice(["HCompatible", "HReveal"]))
        if k == 12:
            return node(("HObjectSafe", self.id()))
        return node("HHolds", [self.wc(d, binders)])

    def goal(self, d=None, binders=0):
        d = self.max_depth if d is None else d
        if d <= 1:
            return node("HDomainGoal", [self.domain_goal(1, binders)])
        k = self.r.randrange(10)
        if k <= 2:
            return node("HDomainGoal", [self.domain_goal(d - 1, binders)])
        if k == 3:
            q = self.r.choice(["ForAll", "Exists"])
            return node(("HQuantified", q), [node(("HBinders", self.vkinds(1, 3)), [self.goal(d - 1, binders + 1)])])
        if k == 4:
            cl = [self.clause(d - 2, binders) for _ in range(self.r.randint(0, 2))]
            return node("HImplies", [node("HList", cl), self.goal(d - 1, binders)])
        if k == 5:
            return node("HAll", [self.goal(d - 1, binders) for _ in range(self.r.randint(0, 3))])
        if k == 6:
            return node("HNot", [self.goal(d - 1, binders)])
        if k == 7:
            a = self.garg(d - 1, binders)
            # EqGoal relates two generic args (any kinds syntactically)
            return node("HEqGoal", [a, self.garg(d - 1, binders)])
        if k == 8:
            return node("HSubtypeGoal", [self.ty(d - 1, binders), self.ty(d - 1, binders)])
        return node("HCannotProve")

    def clause(self, d=None, binders=0):
        d = self.max_depth if d is None else d
        d = max(d, 1)
        conds = [self.goal(d - 1, binders + 1) for _ in range(self.r.randint(0, 2))]
        cons = []
        if self.r.random() < 0.15:
            c = node("HLtOutlives", [self.lifetime(binders + 1), self.lifetime(binders + 1)])
            cons.append(node("HConstraint", [node("HList", []), c]))
        imp = node(("HImplication", self.r.choice(["High", "Low"])),
                   [self.domain_goal(d, binders + 1), node("HList", conds), node("HList", cons)])
        return node("HClause", [node(("HBinders", self.vkinds(0, 3)), [imp])])

    def any_term(self, d=None, binders=0):
        d = self.max_depth if d is None else d
        k = self.r.random()
        if k < 0.55:
            return self.ty(d, binders)
        if k < 0.6:
            return self.lifetime(binders)
        if k < 0.66:
            return self.const(binders)
        if k < 0.8:
            return self.goal(d, binders)
        if k < 0.9:
            return self.clause(d, binders)
        if k < 0.95:
            return self.domain_goal(d, binders)
        return self.wc(d, binders)


# ---------------------------------------------------------------------------------------------
# structural helpers on terms (used by property predicates evaluated on the implementation's
# own outputs, independently of the Coq model)
# ---------------------------------------------------------------------------------------------

def children(t):
    if t[0] == "Node":
        return t[2]
    if t[0] == "CVar":
        return [t[3]]
    return []


def subterms(t):
    yield t
    for c in children(t):
        yield from subterms(c)


def tsize(t):
    return 1 + sum(tsize(c) for c in children(t))


def shrink_candidates(t):
    """Smaller variants of a term of the same sort, for delta-debugging failing cases."""
    out = []
    for c in children(t):
        out.append(c)
    if t[0] == "Node":
        h, cs = t[1], t[2]
        for i, c in enumerate(cs):
            for c2 in shrink_candidates(c):
                out.append(("Node", h, cs[:i] + [c2] + cs[i + 1:]))
    return out

DISCIPLINED_KINDS = [("VTy", "General"), "VLt", "VConst", ("VTy", "General"), "VLt", "VConst"]
