//! The one data syntax shared by the Python generators, the Coq models and the harness.
//!   (Ctor a b ...)  constructor application     [a b ...]  list
//!   123             number                      Name       bare constructor / atom
//!   "text"          string (\" and \\ escapes, \n)
use std::fmt;

#[derive(Clone, Debug, PartialEq, Eq, Hash, PartialOrd, Ord)]
pub enum Sexp {
    App(String, Vec<Sexp>),
    List(Vec<Sexp>),
    Num(u64),
    Atom(String),
    Str(String),
}

impl Sexp {
    pub fn app(name: &str, args: Vec<Sexp>) -> Sexp {
        if args.is_empty() { Sexp::Atom(name.to_string()) } else { Sexp::App(name.to_string(), args) }
    }
    pub fn atom(name: &str) -> Sexp { Sexp::Atom(name.to_string()) }
    pub fn num(n: u64) -> Sexp { Sexp::Num(n) }
    pub fn boolean(b: bool) -> Sexp { Sexp::Atom(if b { "true" } else { "false" }.to_string()) }
    pub fn list(v: Vec<Sexp>) -> Sexp { Sexp::List(v) }
    pub fn string(s: &str) -> Sexp { Sexp::Str(s.to_string()) }
    /// Constructor name of an application or atom.
    pub fn head(&self) -> Option<&str> {
        match self { Sexp::App(h, _) => Some(h), Sexp::Atom(h) => Some(h), _ => None }
    }
    pub fn args(&self) -> &[Sexp] {
        match self { Sexp::App(_, a) => a, _ => &[] }
    }
    pub fn as_num(&self) -> Result<u64, String> {
        match self { Sexp::Num(n) => Ok(*n), o => Err(format!("expected number, got {}", o)) }
    }
    pub fn as_list(&self) -> Result<&[Sexp], String> {
        match self { Sexp::List(v) => Ok(v), o => Err(format!("expected list, got {}", o)) }
    }
    pub fn as_str(&self) -> Result<&str, String> {
        match self { Sexp::Str(s) => Ok(s), o => Err(format!("expected string, got {}", o)) }
    }
    pub fn as_bool(&self) -> Result<bool, String> {
        match self.head() { Some("true") => Ok(true), Some("false") => Ok(false), _ => Err(format!("expected bool, got {}", self)) }
    }
}

impl fmt::Display for Sexp {
    fn fmt(&self, f: &mut fmt::Formatter<'_>) -> fmt::Result {
        match self {
            Sexp::App(h, a) => {
                write!(f, "({}", h)?;
                for x in a { write!(f, " {}", x)?; }
                write!(f, ")")
            }
            Sexp::List(v) => {
                write!(f, "[")?;
                for (i, x) in v.iter().enumerate() { if i > 0 { write!(f, " ")?; } write!(f, "{}", x)?; }
                write!(f, "]")
            }
            Sexp::Num(n) => write!(f, "{}", n),
            Sexp::Atom(a) => write!(f, "{}", a),
            Sexp::Str(s) => {
                write!(f, "\"")?;
                for c in s.chars() {
                    match c { '"' => write!(f, "\\\"")?, '\\' => write!(f, "\\\\")?, '\n' => write!(f, "\\n")?, c => write!(f, "{}", c)? }
                }
                write!(f, "\"")
            }
        }
    }
}

pub fn parse(s: &str) -> Result<Sexp, String> {
    let cs: Vec<char> = s.chars().collect();
    let mut p = 0usize;
    let r = parse_at(&cs, &mut p)?;
    skip_ws(&cs, &mut p);
    if p != cs.len() { return Err(format!("trailing input at {}", p)); }
    Ok(r)
}

fn skip_ws(cs: &[char], p: &mut usize) { while *p < cs.len() && cs[*p].is_whitespace() { *p += 1; } }

fn parse_at(cs: &[char], p: &mut usize) -> Result<Sexp, String> {
    skip_ws(cs, p);
    if *p >= cs.len() { return Err("unexpected end".into()); }
    match cs[*p] {
        '(' => {
            *p += 1;
            skip_ws(cs, p);
            let start = *p;
            while *p < cs.len() && !cs[*p].is_whitespace() && cs[*p] != ')' && cs[*p] != '(' && cs[*p] != '[' { *p += 1; }
            let head: String = cs[start..*p].iter().collect();
            if head.is_empty() { return Err(format!("empty head at {}", start)); }
            let mut args = vec![];
            loop {
                skip_ws(cs, p);
                if *p >= cs.len() { return Err("unclosed (".into()); }
                if cs[*p] == ')' { *p += 1; break; }
                args.push(parse_at(cs, p)?);
            }
            Ok(Sexp::app(&head, args))
        }
        '[' => {
            *p += 1;
            let mut items = vec![];
            loop {
                skip_ws(cs, p);
                if *p >= cs.len() { return Err("unclosed [".into()); }
                if cs[*p] == ']' { *p += 1; break; }
                items.push(parse_at(cs, p)?);
            }
            Ok(Sexp::List(items))
        }
        '"' => {
            *p += 1;
            let mut out = String::new();
            loop {
                if *p >= cs.len() { return Err("unclosed string".into()); }
                let c = cs[*p];
                *p += 1;
                match c {
                    '"' => break,
                    '\\' => {
                        if *p >= cs.len() { return Err("bad escape".into()); }
                        let e = cs[*p];
                        *p += 1;
                        out.push(match e { 'n' => '\n', o => o });
                    }
                    c => out.push(c),
                }
            }
            Ok(Sexp::Str(out))
        }
        ')' | ']' => Err(format!("unexpected close at {}", *p)),
        _ => {
            let start = *p;
            while *p < cs.len() && !cs[*p].is_whitespace() && !"()[]\"".contains(cs[*p]) { *p += 1; }
            let tok: String = cs[start..*p].iter().collect();
            if tok.chars().all(|c| c.is_ascii_digit()) {
                tok.parse::<u64>().map(Sexp::Num).map_err(|e| e.to_string())
            } else {
                Ok(Sexp::Atom(tok))
            }
        }
    }
}
