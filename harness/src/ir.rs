//! Conversion between the shared S-expression term syntax (the Coq `tm` of `coq/Ir/Syntax.v`)
//! and real `chalk_ir` values over the `ChalkIr` interner.
//!
//!   (Var STy d i) | (Var SLt d i) | (CVar d i cty) | (Node <head> [children])
//!
//! Heads are spelled exactly like the Coq constructors (`(HAdt 3)`, `HSlice`, `(HRef Mut)`, ...).
use crate::sexp::Sexp;
use chalk_integration::interner::{ChalkFnAbi, ChalkIr, RawId};
use chalk_ir::*;

pub type R<T> = Result<T, String>;
const I: ChalkIr = ChalkIr;

fn raw(n: u64) -> RawId { RawId { index: n as u32 } }

fn node(head: Sexp, children: Vec<Sexp>) -> Sexp { Sexp::app("Node", vec![head, Sexp::List(children)]) }
fn h0(name: &str) -> Sexp { Sexp::atom(name) }
fn h1(name: &str, a: u64) -> Sexp { Sexp::app(name, vec![Sexp::num(a)]) }
fn h2(name: &str, a: u64, b: u64) -> Sexp { Sexp::app(name, vec![Sexp::num(a), Sexp::num(b)]) }

fn split(s: &Sexp) -> R<(&Sexp, &[Sexp])> {
    if s.head() != Some("Node") || s.args().len() != 2 { return Err(format!("expected Node, got {}", s)); }
    Ok((&s.args()[0], s.args()[1].as_list()?))
}

fn num_arg(h: &Sexp, k: usize) -> R<u64> { h.args().get(k).ok_or_else(|| format!("missing head arg in {}", h))?.as_num() }

fn bound_var(s: &Sexp, off: usize) -> R<BoundVar> {
    let a = s.args();
    Ok(BoundVar::new(DebruijnIndex::new(a[off].as_num()? as u32), a[off + 1].as_num()? as usize))
}

fn mutability(s: &Sexp) -> R<Mutability> {
    match s.head() { Some("Mut") => Ok(Mutability::Mut), Some("Not") => Ok(Mutability::Not), _ => Err(format!("mutability {}", s)) }
}
fn mutability_sx(m: Mutability) -> Sexp { h0(match m { Mutability::Mut => "Mut", Mutability::Not => "Not" }) }

fn scalar(s: &Sexp) -> R<Scalar> {
    let a0 = || s.args().get(0).and_then(|x| x.head()).unwrap_or("");
    Ok(match s.head() {
        Some("Bool") => Scalar::Bool,
        Some("Char") => Scalar::Char,
        Some("Int") => Scalar::Int(match a0() { "Isize" => IntTy::Isize, "I8" => IntTy::I8, "I16" => IntTy::I16, "I32" => IntTy::I32, "I64" => IntTy::I64, "I128" => IntTy::I128, o => return Err(format!("intty {}", o)) }),
        Some("Uint") => Scalar::Uint(match a0() { "Usize" => UintTy::Usize, "U8" => UintTy::U8, "U16" => UintTy::U16, "U32" => UintTy::U32, "U64" => UintTy::U64, "U128" => UintTy::U128, o => return Err(format!("uintty {}", o)) }),
        Some("Float") => Scalar::Float(match a0() { "F16" => FloatTy::F16, "F32" => FloatTy::F32, "F64" => FloatTy::F64, "F128" => FloatTy::F128, o => return Err(format!("floatty {}", o)) }),
        _ => return Err(format!("scalar {}", s)),
    })
}
fn scalar_sx(s: Scalar) -> Sexp {
    match s {
        Scalar::Bool => h0("Bool"),
        Scalar::Char => h0("Char"),
        Scalar::Int(i) => Sexp::app("Int", vec![h0(match i { IntTy::Isize => "Isize", IntTy::I8 => "I8", IntTy::I16 => "I16", IntTy::I32 => "I32", IntTy::I64 => "I64", IntTy::I128 => "I128" })]),
        Scalar::Uint(u) => Sexp::app("Uint", vec![h0(match u { UintTy::Usize => "Usize", UintTy::U8 => "U8", UintTy::U16 => "U16", UintTy::U32 => "U32", UintTy::U64 => "U64", UintTy::U128 => "U128" })]),
        Scalar::Float(f) => Sexp::app("Float", vec![h0(match f { FloatTy::F16 => "F16", FloatTy::F32 => "F32", FloatTy::F64 => "F64", FloatTy::F128 => "F128" })]),
    }
}

fn tvk(s: &Sexp) -> R<TyVariableKind> {
    match s.head() { Some("General") => Ok(TyVariableKind::General), Some("Integer") => Ok(TyVariableKind::Integer), Some("FloatVar") => Ok(TyVariableKind::Float), _ => Err(format!("tvk {}", s)) }
}
fn tvk_sx(k: TyVariableKind) -> Sexp { h0(match k { TyVariableKind::General => "General", TyVariableKind::Integer => "Integer", TyVariableKind::Float => "FloatVar" }) }

pub fn usize_ty() -> Ty<ChalkIr> { TyKind::Scalar(Scalar::Uint(UintTy::Usize)).intern(I) }

pub fn vkind(s: &Sexp) -> R<VariableKind<ChalkIr>> {
    match s.head() {
        Some("VTy") => Ok(VariableKind::Ty(tvk(&s.args()[0])?)),
        Some("VLt") => Ok(VariableKind::Lifetime),
        Some("VConst") => Ok(VariableKind::Const(usize_ty())),
        _ => Err(format!("vkind {}", s)),
    }
}
pub fn vkind_sx(k: &VariableKind<ChalkIr>) -> Sexp {
    match k {
        VariableKind::Ty(t) => Sexp::app("VTy", vec![tvk_sx(*t)]),
        VariableKind::Lifetime => h0("VLt"),
        VariableKind::Const(_) => h0("VConst"),
    }
}
pub fn vkinds(s: &Sexp) -> R<VariableKinds<ChalkIr>> {
    let v: R<Vec<_>> = s.as_list()?.iter().map(vkind).collect();
    Ok(VariableKinds::from_iter(I, v?))
}
pub fn vkinds_sx(k: &VariableKinds<ChalkIr>) -> Sexp { Sexp::List(k.iter(I).map(vkind_sx).collect()) }

// ------------------------------------------------------------------------------------------
// sexp -> chalk_ir
// ------------------------------------------------------------------------------------------

pub fn to_subst(cs: &[Sexp]) -> R<Substitution<ChalkIr>> {
    let v: R<Vec<_>> = cs.iter().map(to_garg).collect();
    Ok(Substitution::from_iter(I, v?))
}

pub fn to_garg(s: &Sexp) -> R<GenericArg<ChalkIr>> {
    match kind_of(s)? {
        'T' => Ok(GenericArgData::Ty(to_ty(s)?).intern(I)),
        'L' => Ok(GenericArgData::Lifetime(to_lifetime(s)?).intern(I)),
        'C' => Ok(GenericArgData::Const(to_const(s)?).intern(I)),
        _ => Err(format!("not a generic argument: {}", s)),
    }
}

/// 'T' type, 'L' lifetime, 'C' const, 'O' other
pub fn kind_of(s: &Sexp) -> R<char> {
    match s.head() {
        Some("Var") => Ok(match s.args()[0].head() { Some("STy") => 'T', Some("SLt") => 'L', _ => return Err(format!("bad sort {}", s)) }),
        Some("CVar") => Ok('C'),
        Some("Node") => {
            let (h, _) = split(s)?;
            Ok(match h.head().unwrap_or("") {
                "HAdt" | "HAssocTy" | "HScalar" | "HTuple" | "HArray" | "HSlice" | "HRaw" | "HRef" | "HOpaqueTy" | "HFnDef" | "HStr"
                | "HNever" | "HClosure" | "HCoroutine" | "HCoroutineWitness" | "HForeign" | "HError" | "HPlaceholder" | "HDyn"
                | "HProjection" | "HOpaqueAlias" | "HFnPtr" | "HInfer" => 'T',
                "HLInfer" | "HLPlaceholder" | "HLStatic" | "HLErased" | "HLError" => 'L',
                "HCInfer" | "HCPlaceholder" | "HCConcrete" => 'C',
                _ => 'O',
            })
        }
        _ => Err(format!("not a term: {}", s)),
    }
}

fn one<'a>(cs: &'a [Sexp], what: &str) -> R<&'a Sexp> { if cs.len() == 1 { Ok(&cs[0]) } else { Err(format!("{}: expected 1 child, got {}", what, cs.len())) } }
fn two<'a>(cs: &'a [Sexp], what: &str) -> R<(&'a Sexp, &'a Sexp)> { if cs.len() == 2 { Ok((&cs[0], &cs[1])) } else { Err(format!("{}: expected 2 children, got {}", what, cs.len())) } }

pub fn to_alias(s: &Sexp) -> R<AliasTy<ChalkIr>> {
    let (h, cs) = split(s)?;
    match h.head() {
        Some("HProjection") => Ok(AliasTy::Projection(ProjectionTy { associated_ty_id: AssocTypeId(raw(num_arg(h, 0)?)), substitution: to_subst(cs)? })),
        Some("HOpaqueAlias") => Ok(AliasTy::Opaque(OpaqueTy { opaque_ty_id: OpaqueTyId(raw(num_arg(h, 0)?)), substitution: to_subst(cs)? })),
        _ => Err(format!("not an alias: {}", s)),
    }
}

pub fn to_ty(s: &Sexp) -> R<Ty<ChalkIr>> {
    if s.head() == Some("Var") {
        if s.args()[0].head() != Some("STy") { return Err(format!("lifetime variable where a type is expected: {}", s)); }
        return Ok(TyKind::BoundVar(bound_var(s, 1)?).intern(I));
    }
    let (h, cs) = split(s)?;
    let k = match h.head().unwrap_or("") {
        "HAdt" => TyKind::Adt(AdtId(raw(num_arg(h, 0)?)), to_subst(cs)?),
        "HAssocTy" => TyKind::AssociatedType(AssocTypeId(raw(num_arg(h, 0)?)), to_subst(cs)?),
        "HScalar" => TyKind::Scalar(scalar(&h.args()[0])?),
        "HTuple" => TyKind::Tuple(num_arg(h, 0)? as usize, to_subst(cs)?),
        "HArray" => { let (a, b) = two(cs, "HArray")?; TyKind::Array(to_ty(a)?, to_const(b)?) }
        "HSlice" => TyKind::Slice(to_ty(one(cs, "HSlice")?)?),
        "HRaw" => TyKind::Raw(mutability(&h.args()[0])?, to_ty(one(cs, "HRaw")?)?),
        "HRef" => { let (a, b) = two(cs, "HRef")?; TyKind::Ref(mutability(&h.args()[0])?, to_lifetime(a)?, to_ty(b)?) }
        "HOpaqueTy" => TyKind::OpaqueType(OpaqueTyId(raw(num_arg(h, 0)?)), to_subst(cs)?),
        "HFnDef" => TyKind::FnDef(FnDefId(raw(num_arg(h, 0)?)), to_subst(cs)?),
        "HStr" => TyKind::Str,
        "HNever" => TyKind::Never,
        "HClosure" => TyKind::Closure(ClosureId(raw(num_arg(h, 0)?)), to_subst(cs)?),
        "HCoroutine" => TyKind::Coroutine(CoroutineId(raw(num_arg(h, 0)?)), to_subst(cs)?),
        "HCoroutineWitness" => TyKind::CoroutineWitness(CoroutineId(raw(num_arg(h, 0)?)), to_subst(cs)?),
        "HForeign" => TyKind::Foreign(ForeignDefId(raw(num_arg(h, 0)?))),
        "HError" => TyKind::Error,
        "HPlaceholder" => TyKind::Placeholder(PlaceholderIndex { ui: UniverseIndex { counter: num_arg(h, 0)? as usize }, idx: num_arg(h, 1)? as usize }),
        "HDyn" => {
            let (b, l) = two(cs, "HDyn")?;
            let (bh, bcs) = split(b)?;
            if bh.head() != Some("HBinders") { return Err("HDyn: first child must be HBinders".into()); }
            let inner = one(bcs, "HDyn binders")?;
            let (lh, qs) = split(inner)?;
            if lh.head() != Some("HList") { return Err("HDyn: binders child must be HList".into()); }
            let q: R<Vec<_>> = qs.iter().map(to_qwc).collect();
            TyKind::Dyn(DynTy { bounds: Binders::new(vkinds(&bh.args()[0])?, QuantifiedWhereClauses::from_iter(I, q?)), lifetime: to_lifetime(l)? })
        }
        "HProjection" | "HOpaqueAlias" => TyKind::Alias(to_alias(s)?),
        "HFnPtr" => {
            let a = h.args();
            let abi = match a[1].head() { Some("AbiRust") => ChalkFnAbi::Rust, Some("AbiC") => ChalkFnAbi::C, _ => return Err("abi".into()) };
            let safety = match a[2].head() { Some("Safe") => Safety::Safe, Some("Unsafe") => Safety::Unsafe, _ => return Err("safety".into()) };
            TyKind::Function(FnPointer { num_binders: a[0].as_num()? as usize, sig: FnSig { abi, safety, variadic: a[3].as_bool()? }, substitution: FnSubst(to_subst(cs)?) })
        }
        "HInfer" => TyKind::InferenceVar(InferenceVar::from(num_arg(h, 0)? as u32), tvk(&h.args()[1])?),
        o => return Err(format!("not a type head: {}", o)),
    };
    Ok(k.intern(I))
}

pub fn to_lifetime(s: &Sexp) -> R<Lifetime<ChalkIr>> {
    if s.head() == Some("Var") {
        if s.args()[0].head() != Some("SLt") { return Err(format!("type variable where a lifetime is expected: {}", s)); }
        return Ok(LifetimeData::BoundVar(bound_var(s, 1)?).intern(I));
    }
    let (h, _) = split(s)?;
    Ok(match h.head().unwrap_or("") {
        "HLInfer" => LifetimeData::InferenceVar(InferenceVar::from(num_arg(h, 0)? as u32)),
        "HLPlaceholder" => LifetimeData::Placeholder(PlaceholderIndex { ui: UniverseIndex { counter: num_arg(h, 0)? as usize }, idx: num_arg(h, 1)? as usize }),
        "HLStatic" => LifetimeData::Static,
        "HLErased" => LifetimeData::Erased,
        "HLError" => LifetimeData::Error,
        o => return Err(format!("not a lifetime head: {}", o)),
    }
    .intern(I))
}

pub fn to_const(s: &Sexp) -> R<Const<ChalkIr>> {
    if s.head() == Some("CVar") {
        let ty = to_ty(&s.args()[2])?;
        return Ok(ConstData { ty, value: ConstValue::BoundVar(bound_var(s, 0)?) }.intern(I));
    }
    let (h, cs) = split(s)?;
    let ty = to_ty(one(cs, "const")?)?;
    let value = match h.head().unwrap_or("") {
        "HCInfer" => ConstValue::InferenceVar(InferenceVar::from(num_arg(h, 0)? as u32)),
        "HCPlaceholder" => ConstValue::Placeholder(PlaceholderIndex { ui: UniverseIndex { counter: num_arg(h, 0)? as usize }, idx: num_arg(h, 1)? as usize }),
        "HCConcrete" => ConstValue::Concrete(ConcreteConst { interned: num_arg(h, 0)? as u32 }),
        o => return Err(format!("not a const head: {}", o)),
    };
    Ok(ConstData { ty, value }.intern(I))
}

pub fn to_trait_ref(s: &Sexp) -> R<TraitRef<ChalkIr>> {
    let (h, cs) = split(s)?;
    if h.head() != Some("HTraitRef") { return Err(format!("not a trait ref: {}", s)); }
    Ok(TraitRef { trait_id: TraitId(raw(num_arg(h, 0)?)), substitution: to_subst(cs)? })
}

pub fn to_wc(s: &Sexp) -> R<WhereClause<ChalkIr>> {
    let (h, cs) = split(s)?;
    Ok(match h.head().unwrap_or("") {
        "HImplemented" => WhereClause::Implemented(to_trait_ref(one(cs, "HImplemented")?)?),
        "HAliasEq" => { let (a, b) = two(cs, "HAliasEq")?; WhereClause::AliasEq(AliasEq { alias: to_alias(a)?, ty: to_ty(b)? }) }
        "HLtOutlives" => { let (a, b) = two(cs, "HLtOutlives")?; WhereClause::LifetimeOutlives(LifetimeOutlives { a: to_lifetime(a)?, b: to_lifetime(b)? }) }
        "HTyOutlives" => { let (a, b) = two(cs, "HTyOutlives")?; WhereClause::TypeOutlives(TypeOutlives { ty: to_ty(a)?, lifetime: to_lifetime(b)? }) }
        o => return Err(format!("not a where clause head: {}", o)),
    })
}

pub fn to_qwc(s: &Sexp) -> R<QuantifiedWhereClause<ChalkIr>> {
    let (h, cs) = split(s)?;
    if h.head() != Some("HBinders") { return Err(format!("quantified where clause must be HBinders: {}", s)); }
    Ok(Binders::new(vkinds(&h.args()[0])?, to_wc(one(cs, "qwc")?)?))
}

pub fn to_domain_goal(s: &Sexp) -> R<DomainGoal<ChalkIr>> {
    let (h, cs) = split(s)?;
    Ok(match h.head().unwrap_or("") {
        "HHolds" => DomainGoal::Holds(to_wc(one(cs, "HHolds")?)?),
        "HWfTy" => DomainGoal::WellFormed(WellFormed::Ty(to_ty(one(cs, "HWfTy")?)?)),
        "HWfTrait" => DomainGoal::WellFormed(WellFormed::Trait(to_trait_ref(one(cs, "HWfTrait")?)?)),
        "HFromEnvTy" => DomainGoal::FromEnv(FromEnv::Ty(to_ty(one(cs, "HFromEnvTy")?)?)),
        "HFromEnvTrait" => DomainGoal::FromEnv(FromEnv::Trait(to_trait_ref(one(cs, "HFromEnvTrait")?)?)),
        "HNormalize" => { let (a, b) = two(cs, "HNormalize")?; DomainGoal::Normalize(Normalize { alias: to_alias(a)?, ty: to_ty(b)? }) }
        "HIsLocal" => DomainGoal::IsLocal(to_ty(one(cs, "HIsLocal")?)?),
        "HIsUpstream" => DomainGoal::IsUpstream(to_ty(one(cs, "HIsUpstream")?)?),
        "HIsFullyVisible" => DomainGoal::IsFullyVisible(to_ty(one(cs, "HIsFullyVisible")?)?),
        "HDownstreamType" => DomainGoal::DownstreamType(to_ty(one(cs, "HDownstreamType")?)?),
        "HLocalImplAllowed" => DomainGoal::LocalImplAllowed(to_trait_ref(one(cs, "HLocalImplAllowed")?)?),
        "HCompatible" => DomainGoal::Compatible,
        "HReveal" => DomainGoal::Reveal,
        "HObjectSafe" => DomainGoal::ObjectSafe(TraitId(raw(num_arg(h, 0)?))),
        o => return Err(format!("not a domain goal head: {}", o)),
    })
}

pub fn to_goal(s: &Sexp) -> R<Goal<ChalkIr>> {
    let (h, cs) = split(s)?;
    let g = match h.head().unwrap_or("") {
        "HQuantified" => {
            let q = match h.args()[0].head() { Some("ForAll") => QuantifierKind::ForAll, Some("Exists") => QuantifierKind::Exists, _ => return Err("qkind".into()) };
            let b = one(cs, "HQuantified")?;
            let (bh, bcs) = split(b)?;
            if bh.head() != Some("HBinders") { return Err("HQuantified child must be HBinders".into()); }
            GoalData::Quantified(q, Binders::new(vkinds(&bh.args()[0])?, to_goal(one(bcs, "quantified body")?)?))
        }
        "HImplies" => {
            let (a, b) = two(cs, "HImplies")?;
            let (lh, lcs) = split(a)?;
            if lh.head() != Some("HList") { return Err("HImplies: first child must be HList".into()); }
            let cl: R<Vec<_>> = lcs.iter().map(to_clause).collect();
            GoalData::Implies(ProgramClauses::from_iter(I, cl?), to_goal(b)?)
        }
        "HAll" => { let gs: R<Vec<_>> = cs.iter().map(to_goal).collect(); GoalData::All(Goals::from_iter(I, gs?)) }
        "HNot" => GoalData::Not(to_goal(one(cs, "HNot")?)?),
        "HEqGoal" => { let (a, b) = two(cs, "HEqGoal")?; GoalData::EqGoal(EqGoal { a: to_garg(a)?, b: to_garg(b)? }) }
        "HSubtypeGoal" => { let (a, b) = two(cs, "HSubtypeGoal")?; GoalData::SubtypeGoal(SubtypeGoal { a: to_ty(a)?, b: to_ty(b)? }) }
        "HDomainGoal" => GoalData::DomainGoal(to_domain_goal(one(cs, "HDomainGoal")?)?),
        "HCannotProve" => GoalData::CannotProve,
        o => return Err(format!("not a goal head: {}", o)),
    };
    Ok(g.intern(I))
}

fn to_constraint(s: &Sexp) -> R<InEnvironment<Constraint<ChalkIr>>> {
    let (h, cs) = split(s)?;
    if h.head() != Some("HConstraint") { return Err("expected HConstraint".into()); }
    let (e, c) = two(cs, "HConstraint")?;
    let (_, ecs) = split(e)?;
    let cl: R<Vec<_>> = ecs.iter().map(to_clause).collect();
    let env = Environment { clauses: ProgramClauses::from_iter(I, cl?) };
    let (ch, ccs) = split(c)?;
    let goal = match ch.head().unwrap_or("") {
        "HLtOutlives" => { let (a, b) = two(ccs, "c")?; Constraint::LifetimeOutlives(to_lifetime(a)?, to_lifetime(b)?) }
        "HTyOutlives" => { let (a, b) = two(ccs, "c")?; Constraint::TypeOutlives(to_ty(a)?, to_lifetime(b)?) }
        o => return Err(format!("constraint head {}", o)),
    };
    Ok(InEnvironment { environment: env, goal })
}

pub fn to_clause(s: &Sexp) -> R<ProgramClause<ChalkIr>> {
    let (h, cs) = split(s)?;
    if h.head() != Some("HClause") { return Err(format!("not a clause: {}", s)); }
    let b = one(cs, "HClause")?;
    let (bh, bcs) = split(b)?;
    if bh.head() != Some("HBinders") { return Err("HClause child must be HBinders".into()); }
    let imp = one(bcs, "clause body")?;
    let (ih, ics) = split(imp)?;
    if ih.head() != Some("HImplication") || ics.len() != 3 { return Err("expected HImplication with 3 children".into()); }
    let priority = match ih.args()[0].head() { Some("High") => ClausePriority::High, Some("Low") => ClausePriority::Low, _ => return Err("priority".into()) };
    let (_, conds) = split(&ics[1])?;
    let (_, cons) = split(&ics[2])?;
    let conditions: R<Vec<_>> = conds.iter().map(to_goal).collect();
    let constraints: R<Vec<_>> = cons.iter().map(to_constraint).collect();
    let implication = ProgramClauseImplication {
        consequence: to_domain_goal(&ics[0])?,
        conditions: Goals::from_iter(I, conditions?),
        constraints: Constraints::from_iter(I, constraints?),
        priority,
    };
    Ok(ProgramClauseData(Binders::new(vkinds(&bh.args()[0])?, implication)).intern(I))
}

// ------------------------------------------------------------------------------------------
// chalk_ir -> sexp
// ------------------------------------------------------------------------------------------

fn var_sx(sort: &str, bv: &BoundVar) -> Sexp {
    Sexp::app("Var", vec![h0(sort), Sexp::num(bv.debruijn.depth() as u64), Sexp::num(bv.index as u64)])
}

pub fn subst_sx(s: &Substitution<ChalkIr>) -> Vec<Sexp> { s.iter(I).map(garg_sx).collect() }

pub fn garg_sx(g: &GenericArg<ChalkIr>) -> Sexp {
    match g.data(I) {
        GenericArgData::Ty(t) => ty_sx(t),
        GenericArgData::Lifetime(l) => lifetime_sx(l),
        GenericArgData::Const(c) => const_sx(c),
    }
}

pub fn alias_sx(a: &AliasTy<ChalkIr>) -> Sexp {
    match a {
        AliasTy::Projection(p) => node(h1("HProjection", p.associated_ty_id.0.index as u64), subst_sx(&p.substitution)),
        AliasTy::Opaque(o) => node(h1("HOpaqueAlias", o.opaque_ty_id.0.index as u64), subst_sx(&o.substitution)),
    }
}

pub fn ty_sx(t: &Ty<ChalkIr>) -> Sexp {
    match t.kind(I) {
        TyKind::BoundVar(bv) => var_sx("STy", bv),
        TyKind::Adt(id, s) => node(h1("HAdt", id.0.index as u64), subst_sx(s)),
        TyKind::AssociatedType(id, s) => node(h1("HAssocTy", id.0.index as u64), subst_sx(s)),
        TyKind::Scalar(sc) => node(Sexp::app("HScalar", vec![scalar_sx(*sc)]), vec![]),
        TyKind::Tuple(n, s) => node(h1("HTuple", *n as u64), subst_sx(s)),
        TyKind::Array(t, c) => node(h0("HArray"), vec![ty_sx(t), const_sx(c)]),
        TyKind::Slice(t) => node(h0("HSlice"), vec![ty_sx(t)]),
        TyKind::Raw(m, t) => node(Sexp::app("HRaw", vec![mutability_sx(*m)]), vec![ty_sx(t)]),
        TyKind::Ref(m, l, t) => node(Sexp::app("HRef", vec![mutability_sx(*m)]), vec![lifetime_sx(l), ty_sx(t)]),
        TyKind::OpaqueType(id, s) => node(h1("HOpaqueTy", id.0.index as u64), subst_sx(s)),
        TyKind::FnDef(id, s) => node(h1("HFnDef", id.0.index as u64), subst_sx(s)),
        TyKind::Str => node(h0("HStr"), vec![]),
        TyKind::Never => node(h0("HNever"), vec![]),
        TyKind::Closure(id, s) => node(h1("HClosure", id.0.index as u64), subst_sx(s)),
        TyKind::Coroutine(id, s) => node(h1("HCoroutine", id.0.index as u64), subst_sx(s)),
        TyKind::CoroutineWitness(id, s) => node(h1("HCoroutineWitness", id.0.index as u64), subst_sx(s)),
        TyKind::Foreign(id) => node(h1("HForeign", id.0.index as u64), vec![]),
        TyKind::Error => node(h0("HError"), vec![]),
        TyKind::Placeholder(p) => node(h2("HPlaceholder", p.ui.counter as u64, p.idx as u64), vec![]),
        TyKind::Dyn(d) => {
            let qs: Vec<Sexp> = d.bounds.skip_binders().iter(I).map(qwc_sx).collect();
            let b = node(Sexp::app("HBinders", vec![vkinds_sx(&d.bounds.binders)]), vec![node(h0("HList"), qs)]);
            node(h0("HDyn"), vec![b, lifetime_sx(&d.lifetime)])
        }
        TyKind::Alias(a) => alias_sx(a),
        TyKind::Function(f) => {
            let head = Sexp::app("HFnPtr", vec![
                Sexp::num(f.num_binders as u64),
                h0(match f.sig.abi { ChalkFnAbi::Rust => "AbiRust", ChalkFnAbi::C => "AbiC" }),
                h0(match f.sig.safety { Safety::Safe => "Safe", Safety::Unsafe => "Unsafe" }),
                Sexp::boolean(f.sig.variadic),
            ]);
            node(head, subst_sx(&f.substitution.0))
        }
        TyKind::InferenceVar(v, k) => node(Sexp::app("HInfer", vec![Sexp::num(v.index() as u64), tvk_sx(*k)]), vec![]),
    }
}

pub fn lifetime_sx(l: &Lifetime<ChalkIr>) -> Sexp {
    match l.data(I) {
        LifetimeData::BoundVar(bv) => var_sx("SLt", bv),
        LifetimeData::InferenceVar(v) => node(h1("HLInfer", v.index() as u64), vec![]),
        LifetimeData::Placeholder(p) => node(h2("HLPlaceholder", p.ui.counter as u64, p.idx as u64), vec![]),
        LifetimeData::Static => node(h0("HLStatic"), vec![]),
        LifetimeData::Erased => node(h0("HLErased"), vec![]),
        LifetimeData::Error => node(h0("HLError"), vec![]),
        LifetimeData::Phantom(..) => unreachable!(),
    }
}

pub fn const_sx(c: &Const<ChalkIr>) -> Sexp {
    let d = c.data(I);
    match &d.value {
        ConstValue::BoundVar(bv) => Sexp::app("CVar", vec![Sexp::num(bv.debruijn.depth() as u64), Sexp::num(bv.index as u64), ty_sx(&d.ty)]),
        ConstValue::InferenceVar(v) => node(h1("HCInfer", v.index() as u64), vec![ty_sx(&d.ty)]),
        ConstValue::Placeholder(p) => node(h2("HCPlaceholder", p.ui.counter as u64, p.idx as u64), vec![ty_sx(&d.ty)]),
        ConstValue::Concrete(cc) => node(h1("HCConcrete", cc.interned as u64), vec![ty_sx(&d.ty)]),
    }
}

pub fn trait_ref_sx(t: &TraitRef<ChalkIr>) -> Sexp { node(h1("HTraitRef", t.trait_id.0.index as u64), subst_sx(&t.substitution)) }

pub fn wc_sx(w: &WhereClause<ChalkIr>) -> Sexp {
    match w {
        WhereClause::Implemented(t) => node(h0("HImplemented"), vec![trait_ref_sx(t)]),
        WhereClause::AliasEq(a) => node(h0("HAliasEq"), vec![alias_sx(&a.alias), ty_sx(&a.ty)]),
        WhereClause::LifetimeOutlives(o) => node(h0("HLtOutlives"), vec![lifetime_sx(&o.a), lifetime_sx(&o.b)]),
        WhereClause::TypeOutlives(o) => node(h0("HTyOutlives"), vec![ty_sx(&o.ty), lifetime_sx(&o.lifetime)]),
    }
}

pub fn qwc_sx(q: &QuantifiedWhereClause<ChalkIr>) -> Sexp {
    node(Sexp::app("HBinders", vec![vkinds_sx(&q.binders)]), vec![wc_sx(q.skip_binders())])
}

pub fn domain_goal_sx(d: &DomainGoal<ChalkIr>) -> Sexp {
    match d {
        DomainGoal::Holds(w) => node(h0("HHolds"), vec![wc_sx(w)]),
        DomainGoal::WellFormed(WellFormed::Ty(t)) => node(h0("HWfTy"), vec![ty_sx(t)]),
        DomainGoal::WellFormed(WellFormed::Trait(t)) => node(h0("HWfTrait"), vec![trait_ref_sx(t)]),
        DomainGoal::FromEnv(FromEnv::Ty(t)) => node(h0("HFromEnvTy"), vec![ty_sx(t)]),
        DomainGoal::FromEnv(FromEnv::Trait(t)) => node(h0("HFromEnvTrait"), vec![trait_ref_sx(t)]),
        DomainGoal::Normalize(n) => node(h0("HNormalize"), vec![alias_sx(&n.alias), ty_sx(&n.ty)]),
        DomainGoal::IsLocal(t) => node(h0("HIsLocal"), vec![ty_sx(t)]),
        DomainGoal::IsUpstream(t) => node(h0("HIsUpstream"), vec![ty_sx(t)]),
        DomainGoal::IsFullyVisible(t) => node(h0("HIsFullyVisible"), vec![ty_sx(t)]),
        DomainGoal::DownstreamType(t) => node(h0("HDownstreamType"), vec![ty_sx(t)]),
        DomainGoal::LocalImplAllowed(t) => node(h0("HLocalImplAllowed"), vec![trait_ref_sx(t)]),
        DomainGoal::Compatible => node(h0("HCompatible"), vec![]),
        DomainGoal::Reveal => node(h0("HReveal"), vec![]),
        DomainGoal::ObjectSafe(id) => node(h1("HObjectSafe", id.0.index as u64), vec![]),
    }
}

pub fn goal_sx(g: &Goal<ChalkIr>) -> Sexp {
    match g.data(I) {
        GoalData::Quantified(q, b) => {
            let qk = h0(match q { QuantifierKind::ForAll => "ForAll", QuantifierKind::Exists => "Exists" });
            node(Sexp::app("HQuantified", vec![qk]), vec![node(Sexp::app("HBinders", vec![vkinds_sx(&b.binders)]), vec![goal_sx(b.skip_binders())])])
        }
        GoalData::Implies(cl, g) => node(h0("HImplies"), vec![node(h0("HList"), cl.iter(I).map(clause_sx).collect()), goal_sx(g)]),
        GoalData::All(gs) => node(h0("HAll"), gs.iter(I).map(goal_sx).collect()),
        GoalData::Not(g) => node(h0("HNot"), vec![goal_sx(g)]),
        GoalData::EqGoal(e) => node(h0("HEqGoal"), vec![garg_sx(&e.a), garg_sx(&e.b)]),
        GoalData::SubtypeGoal(e) => node(h0("HSubtypeGoal"), vec![ty_sx(&e.a), ty_sx(&e.b)]),
        GoalData::DomainGoal(d) => node(h0("HDomainGoal"), vec![domain_goal_sx(d)]),
        GoalData::CannotProve => node(h0("HCannotProve"), vec![]),
    }
}

fn constraint_sx(c: &InEnvironment<Constraint<ChalkIr>>) -> Sexp {
    let env = node(h0("HList"), c.environment.clauses.iter(I).map(clause_sx).collect());
    let g = match &c.goal {
        Constraint::LifetimeOutlives(a, b) => node(h0("HLtOutlives"), vec![lifetime_sx(a), lifetime_sx(b)]),
        Constraint::TypeOutlives(a, b) => node(h0("HTyOutlives"), vec![ty_sx(a), lifetime_sx(b)]),
    };
    node(h0("HConstraint"), vec![env, g])
}

pub fn clause_sx(c: &ProgramClause<ChalkIr>) -> Sexp {
    let ProgramClauseData(b) = c.data(I);
    let imp = b.skip_binders();
    let p = h0(match imp.priority { ClausePriority::High => "High", ClausePriority::Low => "Low" });
    let body = node(Sexp::app("HImplication", vec![p]), vec![
        domain_goal_sx(&imp.consequence),
        node(h0("HList"), imp.conditions.iter(I).map(goal_sx).collect()),
        node(h0("HList"), imp.constraints.iter(I).map(constraint_sx).collect()),
    ]);
    node(h0("HClause"), vec![node(Sexp::app("HBinders", vec![vkinds_sx(&b.binders)]), vec![body])])
}

/// Any term by its syntactic category: 'T','L','C' by `kind_of`, otherwise by head.
pub enum AnyTerm {
    Ty(Ty<ChalkIr>),
    Lifetime(Lifetime<ChalkIr>),
    Const(Const<ChalkIr>),
    Goal(Goal<ChalkIr>),
    Clause(ProgramClause<ChalkIr>),
    DomainGoal(DomainGoal<ChalkIr>),
    WhereClause(WhereClause<ChalkIr>),
    Qwc(QuantifiedWhereClause<ChalkIr>),
    TraitRef(TraitRef<ChalkIr>),
}

pub fn to_any(s: &Sexp) -> R<AnyTerm> {
    match kind_of(s)? {
        'T' => Ok(AnyTerm::Ty(to_ty(s)?)),
        'L' => Ok(AnyTerm::Lifetime(to_lifetime(s)?)),
        'C' => Ok(AnyTerm::Const(to_const(s)?)),
        _ => {
            let (h, _) = split(s)?;
            match h.head().unwrap_or("") {
                "HQuantified" | "HImplies" | "HAll" | "HNot" | "HEqGoal" | "HSubtypeGoal" | "HDomainGoal" | "HCannotProve" => Ok(AnyTerm::Goal(to_goal(s)?)),
                "HClause" => Ok(AnyTerm::Clause(to_clause(s)?)),
                "HImplemented" | "HAliasEq" | "HLtOutlives" | "HTyOutlives" => Ok(AnyTerm::WhereClause(to_wc(s)?)),
                "HBinders" => Ok(AnyTerm::Qwc(to_qwc(s)?)),
                "HTraitRef" => Ok(AnyTerm::TraitRef(to_trait_ref(s)?)),
                _ => Ok(AnyTerm::DomainGoal(to_domain_goal(s)?)),
            }
        }
    }
}

pub fn any_sx(a: &AnyTerm) -> Sexp {
    match a {
        AnyTerm::Ty(t) => ty_sx(t),
        AnyTerm::Lifetime(t) => lifetime_sx(t),
        AnyTerm::Const(t) => const_sx(t),
        AnyTerm::Goal(t) => goal_sx(t),
        AnyTerm::Clause(t) => clause_sx(t),
        AnyTerm::DomainGoal(t) => domain_goal_sx(t),
        AnyTerm::WhereClause(t) => wc_sx(t),
        AnyTerm::Qwc(t) => qwc_sx(t),
        AnyTerm::TraitRef(t) => trait_ref_sx(t),
    }
}
