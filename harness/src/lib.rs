//! Shared helpers for the verification harness binaries.
pub mod batch;
pub mod sexp;
