//! Shared helpers for the verification harness binaries.
pub mod batch;
pub mod ir;
pub mod sexp;
