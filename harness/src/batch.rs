//! Line-oriented batch driver: one S-expression case per stdin line, one result per stdout line.
//! Every case runs under `catch_unwind`; a panic becomes `(Panic "<message> @ <file>:<line>")`.
use crate::sexp::{parse, Sexp};
use std::cell::RefCell;
use std::io::{BufRead, Write};
use std::panic::{self, AssertUnwindSafe};

thread_local! {
    static LAST_PANIC: RefCell<String> = RefCell::new(String::new());
}

pub fn install_quiet_panic_hook() {
    panic::set_hook(Box::new(|info| {
        let msg = if let Some(s) = info.payload().downcast_ref::<&str>() {
            s.to_string()
        } else if let Some(s) = info.payload().downcast_ref::<String>() {
            s.clone()
        } else {
            "<non-string panic>".to_string()
        };
        let loc = info.location().map(|l| format!("{}:{}", l.file(), l.line())).unwrap_or_default();
        LAST_PANIC.with(|p| *p.borrow_mut() = format!("{} @ {}", msg, loc));
    }));
}

pub fn last_panic() -> String { LAST_PANIC.with(|p| p.borrow().clone()) }

/// Run `f` catching panics; `Err(message)` on panic.
pub fn guarded<T>(f: impl FnOnce() -> T) -> Result<T, String> {
    LAST_PANIC.with(|p| p.borrow_mut().clear());
    match panic::catch_unwind(AssertUnwindSafe(f)) {
        Ok(v) => Ok(v),
        Err(_) => Err(last_panic()),
    }
}

pub fn panic_sexp(msg: &str) -> Sexp { Sexp::app("Panic", vec![Sexp::string(msg)]) }

/// The main loop. `f` gets the parsed case; `Err(s)` is reported as `(BadInput "s")`.
pub fn run_batch(mut f: impl FnMut(&Sexp) -> Result<Sexp, String>) {
    install_quiet_panic_hook();
    let stdin = std::io::stdin();
    let stdout = std::io::stdout();
    for line in stdin.lock().lines() {
        let line = match line { Ok(l) => l, Err(_) => break };
        if line.trim().is_empty() { continue; }
        let out = match parse(&line) {
            Err(e) => Sexp::app("BadInput", vec![Sexp::string(&e)]),
            Ok(case) => match guarded(|| f(&case)) {
                Ok(Ok(r)) => r,
                Ok(Err(e)) => Sexp::app("BadInput", vec![Sexp::string(&e)]),
                Err(p) => panic_sexp(&p),
            },
        };
        let mut o = stdout.lock();
        let _ = writeln!(o, "{}", out);
        let _ = o.flush();
    }
}
