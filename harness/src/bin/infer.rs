//! Inference family: scripts on ONE real `chalk_solve::infer::InferenceTable`, and `Subtype(A, B)`
//! goals through the real solvers.
//!
//!   infer script    case ::= (Case [<vars> ...] [<vars> ...] [<step> ...])      ADT / fn-def variances
//!                   vars ::= (Pair id [Covariant|Invariant|Contravariant ...])   (padded with Invariant to 16)
//!                   step ::= NewUniverse | (NewVar u) | (Relate <variance> a b) | (Both <variance> a b)
//!                   a, b are types / lifetimes / consts in the shared term syntax (harness/src/ir.rs);
//!                   inference variables are referenced by creation index.
//!     result ::= (Trace [<sr> ...])     sr ::= (S <res> <state>) | Skipped   (after a panic the script stops)
//!     res    ::= Unit | (Ok [goal ...]) | Err | (Panic "msg") | (Both r r)      r ::= Ok | Err | Panic
//!     state  ::= (State vars_len unify_len max_universe max_universe_by_clone [(V root <uopt> <popt>) ...])
//!                uopt ::= (Some u) | None (bound)      popt ::= (Some <term>) | None (unbound)
//!
//!   infer subtype   case ::= (Subtype "<program>" "<goal>" Slg|Rec)
//!     result ::= (Sol [(Pair "adt" id) ...] [(Pair id [variance ...]) ...] <goal term> [<e2c> ...] <answer>)
//!     e2c    ::= (Some k) | None        canonical index of each `exists` variable, in binder order
//!     answer ::= (Unique [u ...] [<term> ...] [<constraint term> ...]) | NoSolution | (Ambig "...") | (Error "msg")
use chalk_integration::db::ChalkDatabase;
use chalk_integration::interner::ChalkIr;
use chalk_integration::lowering::lower_goal;
use chalk_integration::query::LoweringDatabase;
use chalk_integration::{tls, SolverChoice};
use chalk_ir::*;
use chalk_solve::infer::InferenceTable;
use chalk_solve::{Solution, Solver};
use std::collections::BTreeMap;
use vh::batch::guarded;
use vh::ir::*;
use vh::sexp::Sexp;

const I: ChalkIr = ChalkIr;

#[derive(Debug)]
struct Db {
    adt: BTreeMap<u32, Vec<Variance>>,
    fnd: BTreeMap<u32, Vec<Variance>>,
}

fn pad(v: Option<&Vec<Variance>>) -> Variances<ChalkIr> {
    let mut out: Vec<Variance> = v.cloned().unwrap_or_default();
    while out.len() < 16 { out.push(Variance::Invariant); }
    Variances::from_iter(I, out)
}

impl UnificationDatabase<ChalkIr> for Db {
    fn fn_def_variance(&self, id: FnDefId<ChalkIr>) -> Variances<ChalkIr> { pad(self.fnd.get(&id.0.index)) }
    fn adt_variance(&self, id: AdtId<ChalkIr>) -> Variances<ChalkIr> { pad(self.adt.get(&id.0.index)) }
}

fn variance(s: &Sexp) -> Result<Variance, String> {
    match s.head() {
        Some("Covariant") => Ok(Variance::Covariant),
        Some("Invariant") => Ok(Variance::Invariant),
        Some("Contravariant") => Ok(Variance::Contravariant),
        _ => Err(format!("variance {}", s)),
    }
}
fn variance_sx(v: Variance) -> Sexp {
    Sexp::atom(match v { Variance::Covariant => "Covariant", Variance::Invariant => "Invariant", Variance::Contravariant => "Contravariant" })
}

fn var_table(s: &Sexp) -> Result<BTreeMap<u32, Vec<Variance>>, String> {
    let mut m = BTreeMap::new();
    for p in s.as_list()? {
        if p.head() != Some("Pair") || p.args().len() != 2 { return Err(format!("expected (Pair id [..]): {}", p)); }
        let vs: Result<Vec<_>, _> = p.args()[1].as_list()?.iter().map(variance).collect();
        m.insert(p.args()[0].as_num()? as u32, vs?);
    }
    Ok(m)
}

fn some(x: Sexp) -> Sexp { Sexp::app("Some", vec![x]) }
fn none() -> Sexp { Sexp::atom("None") }

fn state_sx(t: &mut InferenceTable<ChalkIr>) -> Sexp {
    let (vars_len, n, maxu, us) = t.verif_state();
    let by_clone = t.clone().new_universe().counter as u64 - 1;
    let mut vs = vec![];
    for i in 0..n {
        let v = InferenceVar::from(i as u32);
        let root = t.inference_var_root(v).index() as u64;
        let u = match us[i] { Some(u) => some(Sexp::num(u.counter as u64)), None => none() };
        let p = match t.probe_var(v) { Some(g) => some(garg_sx(&g)), None => none() };
        vs.push(Sexp::app("V", vec![Sexp::num(root), u, p]));
    }
    Sexp::app("State", vec![Sexp::num(vars_len as u64), Sexp::num(n as u64), Sexp::num(maxu.counter as u64), Sexp::num(by_clone), Sexp::List(vs)])
}

enum Rel { Ok(Vec<Sexp>), Err, Panic(String) }

fn relate_terms(t: &mut InferenceTable<ChalkIr>, db: &Db, v: Variance, a: &Sexp, b: &Sexp) -> Result<Rel, String> {
    let env = Environment::new(I);
    let ka = kind_of(a)?;
    if ka != kind_of(b)? { return Err("Relate: the two terms have different kinds".into()); }
    let r = match ka {
        'T' => { let (x, y) = (to_ty(a)?, to_ty(b)?); guarded(|| t.relate(I, db, &env, v, &x, &y)) }
        'L' => { let (x, y) = (to_lifetime(a)?, to_lifetime(b)?); guarded(|| t.relate(I, db, &env, v, &x, &y)) }
        'C' => { let (x, y) = (to_const(a)?, to_const(b)?); guarded(|| t.relate(I, db, &env, v, &x, &y)) }
        _ => return Err("Relate: not a type, lifetime or const".into()),
    };
    Ok(match r {
        Ok(Ok(rr)) => Rel::Ok(rr.goals.iter().map(|g| goal_sx(&g.goal)).collect()),
        Ok(Err(_)) => Rel::Err,
        Err(p) => Rel::Panic(p),
    })
}

fn script(c: &Sexp) -> Result<Sexp, String> {
    let a = c.args();
    if c.head() != Some("Case") || a.len() != 3 { return Err("expected (Case adts fns steps)".into()); }
    let db = Db { adt: var_table(&a[0])?, fnd: var_table(&a[1])? };
    let mut t: InferenceTable<ChalkIr> = InferenceTable::new();
    let mut out = vec![];
    let mut dead = false;
    for st in a[2].as_list()? {
        if dead { out.push(Sexp::atom("Skipped")); continue; }
        let sa = st.args();
        let res = match st.head() {
            Some("NewUniverse") => { t.new_universe(); Sexp::atom("Unit") }
            Some("NewVar") => { t.new_variable(UniverseIndex { counter: sa[0].as_num()? as usize }); Sexp::atom("Unit") }
            Some("Relate") => match relate_terms(&mut t, &db, variance(&sa[0])?, &sa[1], &sa[2])? {
                Rel::Ok(gs) => Sexp::app("Ok", vec![Sexp::List(gs)]),
                Rel::Err => Sexp::atom("Err"),
                Rel::Panic(m) => { dead = true; Sexp::app("Panic", vec![Sexp::string(&m)]) }
            },
            Some("Both") => {
                let v = variance(&sa[0])?;
                let mut t1 = t.clone();
                let mut t2 = t.clone();
                let f = |r: Rel| Sexp::atom(match r { Rel::Ok(_) => "Ok", Rel::Err => "Err", Rel::Panic(_) => "Panic" });
                let r1 = f(relate_terms(&mut t1, &db, v, &sa[1], &sa[2])?);
                let r2 = f(relate_terms(&mut t2, &db, v, &sa[2], &sa[1])?);
                Sexp::app("Both", vec![r1, r2])
            }
            o => return Err(format!("unknown step {:?}", o)),
        };
        if dead { out.push(Sexp::app("S", vec![res, Sexp::atom("NoState")])); continue; }
        let s = state_sx(&mut t);
        out.push(Sexp::app("S", vec![res, s]));
    }
    Ok(Sexp::app("Trace", vec![Sexp::List(out)]))
}

// ---------------------------------------------------------------------------------------------
// Subtype goals through the real solvers
// ---------------------------------------------------------------------------------------------

fn constraint_term(c: &InEnvironment<Constraint<ChalkIr>>) -> Sexp {
    let n = |h: &str, cs: Vec<Sexp>| Sexp::app("Node", vec![Sexp::atom(h), Sexp::List(cs)]);
    match &c.goal {
        Constraint::LifetimeOutlives(a, b) => n("HLtOutlives", vec![lifetime_sx(a), lifetime_sx(b)]),
        Constraint::TypeOutlives(a, b) => n("HTyOutlives", vec![ty_sx(a), lifetime_sx(b)]),
    }
}

fn subtype(c: &Sexp) -> Result<Sexp, String> {
    let a = c.args();
    if c.head() != Some("Subtype") || a.len() != 3 { return Err("expected (Subtype program goal solver)".into()); }
    let choice = match a[2].head() { Some("Slg") => SolverChoice::slg_default(), Some("Rec") => SolverChoice::recursive_default(), _ => return Err("solver".into()) };
    // one database per (program text, solver) and process: parsing and lowering the program dominates otherwise
    thread_local! {
        static DBS: std::cell::RefCell<Vec<(String, bool, std::rc::Rc<ChalkDatabase>)>> = std::cell::RefCell::new(vec![]);
    }
    let text = a[0].as_str()?.to_string();
    let is_slg = a[2].head() == Some("Slg");
    let db: std::rc::Rc<ChalkDatabase> = DBS.with(|d| {
        let mut d = d.borrow_mut();
        if let Some(e) = d.iter().find(|e| e.0 == text && e.1 == is_slg) { return e.2.clone(); }
        let db = std::rc::Rc::new(ChalkDatabase::with(&text, choice));
        d.push((text.clone(), is_slg, db.clone()));
        db
    });
    let db: &ChalkDatabase = &db;
    let program = db.program_ir().map_err(|e| format!("program: {}", e))?;
    let adts: Vec<Sexp> = program.adt_ids.iter().map(|(n, id)| Sexp::app("Pair", vec![Sexp::string(&n.to_string()), Sexp::num(id.0.index as u64)])).collect();
    let vars: Vec<Sexp> = program.adt_variances.iter().map(|(id, vs)| Sexp::app("Pair", vec![Sexp::num(id.0.index as u64), Sexp::List(vs.iter().map(|v| variance_sx(*v)).collect())])).collect();
    let parsed = chalk_parse::parse_goal(a[1].as_str()?).map_err(|e| format!("goal parse: {}", e))?;
    let goal = tls::set_current_program(&program, || lower_goal(&*parsed, &*program)).map_err(|e| format!("goal lower: {}", e))?;
    let goal_term = goal_sx(&goal);
    // peel forall/exists with the public table API (as GoalExt::into_peeled_goal does), remembering
    // which canonical variable each `exists` variable became
    let mut infer: InferenceTable<ChalkIr> = InferenceTable::new();
    let mut n_exists = 0usize;
    let mut g = goal.clone();
    loop {
        let next = match g.data(I) {
            GoalData::Quantified(QuantifierKind::ForAll, sub) => infer.instantiate_binders_universally(I, sub.clone()),
            GoalData::Quantified(QuantifierKind::Exists, sub) => { n_exists += sub.binders.len(I); infer.instantiate_binders_existentially(I, sub.clone()) }
            _ => break,
        };
        g = next;
    }
    let env_goal = InEnvironment::new(&Environment::new(I), g);
    let canon = infer.canonicalize(I, env_goal);
    let mut e2c = vec![None; n_exists];
    for (k, v) in canon.free_vars.iter().enumerate() {
        let iv: InferenceVar = (*v.skip_kind()).into();
        if (iv.index() as usize) < n_exists { e2c[iv.index() as usize] = Some(k); }
    }
    let u = InferenceTable::u_canonicalize(I, &canon.quantified);
    let e2c_sx: Vec<Sexp> = e2c.iter().map(|k| match k { Some(k) => some(Sexp::num(*k as u64)), None => none() }).collect();
    let answer = match guarded(|| tls::set_current_program(&program, || {
        let mut solver: Box<dyn Solver<ChalkIr>> = choice.into_solver();
        solver.solve(db, &u.quantified)
    })) {
        Err(p) => Sexp::app("Error", vec![Sexp::string(&format!("panic: {}", p))]),
        Ok(None) => Sexp::atom("NoSolution"),
        Ok(Some(Solution::Unique(c))) => {
            let c = {
                use chalk_solve::infer::ucanonicalize::UniverseMapExt;
                u.universes.map_from_canonical(I, &c)
            };
            let us: Vec<Sexp> = c.binders.iter(I).map(|b| Sexp::num(b.skip_kind().counter as u64)).collect();
            let sub: Vec<Sexp> = c.value.subst.iter(I).map(garg_sx).collect();
            let cs: Vec<Sexp> = c.value.constraints.iter(I).map(constraint_term).collect();
            Sexp::app("Unique", vec![Sexp::List(us), Sexp::List(sub), Sexp::List(cs)])
        }
        Ok(Some(Solution::Ambig(gd))) => Sexp::app("Ambig", vec![Sexp::string(&tls::set_current_program(&program, || format!("{:?}", gd)))]),
    };
    Ok(Sexp::app("Sol", vec![Sexp::List(adts), Sexp::List(vars), goal_term, Sexp::List(e2c_sx), answer]))
}

fn main() {
    let mode = std::env::args().nth(1).unwrap_or_default();
    vh::batch::run_batch(|c| match mode.as_str() {
        "script" => script(c),
        "subtype" => subtype(c),
        o => Err(format!("unknown sub-command {}", o)),
    });
}
