//! C18, call site `Program::impls_for_trait`: for a goal `T: Trait<..>` (under exists/forall),
//! which impls does the real pre-filtered selection return, and which impl headers REALLY unify
//! with the goal's trait reference (real InferenceTable::relate on freshly instantiated headers)?
//!   case   ::= (Case "<program text>" ["<goal text>" ...])
//!   result ::= (Result [(G [returned impl ranks] [unifiable impl ranks]) | (GoalError "msg") ...]) | (ProgramError "msg")
//! impl rank = position of the impl among the program's impls in source order.
use chalk_integration::db::ChalkDatabase;
use chalk_integration::interner::ChalkIr;
use chalk_integration::lowering::lower_goal;
use chalk_integration::query::LoweringDatabase;
use chalk_integration::SolverChoice;
use chalk_ir::*;
use chalk_solve::ext::GoalExt;
use chalk_solve::infer::InferenceTable;
use chalk_solve::RustIrDatabase;
use vh::sexp::Sexp;

const I: ChalkIr = ChalkIr;

fn main() {
    vh::batch::run_batch(|c| {
        let a = c.args();
        let text = a[0].as_str()?;
        let db = ChalkDatabase::with(text, SolverChoice::slg_default());
        let program = match db.program_ir() {
            Ok(p) => p,
            Err(e) => return Ok(Sexp::app("ProgramError", vec![Sexp::string(&format!("{}", e))])),
        };
        let impl_ids: Vec<ImplId<ChalkIr>> = program.impl_data.keys().cloned().collect();
        let rank = |id: &ImplId<ChalkIr>| impl_ids.iter().position(|x| x == id).unwrap() as u64;
        let mut out = vec![];
        for g in a[1].as_list()? {
            let gt = g.as_str()?;
            let r: Result<Sexp, String> = chalk_integration::tls::set_current_program(&program, || {
                let parsed = chalk_parse::parse_goal(gt).map_err(|e| format!("{}", e))?;
                let goal = lower_goal(&*parsed, &*program).map_err(|e| format!("{}", e))?;
                let peeled = goal.into_peeled_goal(I);
                let canonical = peeled.canonical.clone();
                let tr = match canonical.value.goal.data(I) {
                    GoalData::DomainGoal(DomainGoal::Holds(WhereClause::Implemented(tr))) => tr.clone(),
                    o => return Err(format!("not a trait-ref goal: {:?}", o)),
                };
                let returned = program.impls_for_trait(tr.trait_id, tr.substitution.as_slice(I), &canonical.binders);
                let mut ret: Vec<u64> = returned.iter().map(|i| rank(i)).collect();
                ret.sort();
                let mut unif = vec![];
                for id in &impl_ids {
                    let datum = &program.impl_data[id];
                    if datum.trait_id() != tr.trait_id { continue; }
                    let (mut table, _subst, goal_tr) = InferenceTable::from_canonical(
                        I, peeled.universes, Canonical { binders: canonical.binders.clone(), value: tr.clone() });
                    let header = datum.binders.map_ref(|b| b.trait_ref.clone());
                    let impl_tr = table.instantiate_binders_existentially(I, header);
                    let env = Environment::new(I);
                    if table.relate(I, &*program, &env, Variance::Invariant, &goal_tr, &impl_tr).is_ok() {
                        unif.push(rank(id));
                    }
                }
                Ok(Sexp::app("G", vec![Sexp::List(ret.into_iter().map(Sexp::num).collect()), Sexp::List(unif.into_iter().map(Sexp::num).collect())]))
            });
            out.push(match r { Ok(s) => s, Err(e) => Sexp::app("GoalError", vec![Sexp::string(&e)]) });
        }
        Ok(Sexp::app("Result", vec![Sexp::List(out)]))
    });
}
