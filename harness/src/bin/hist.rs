//! `hist` — whole-solver histories on ONE solver instance with interruption schedules and
//! injected database panics (C09–C12).  The whole case runs in one forked child (CPU / memory
//! limit, bounded thread stack); results are streamed per step, so a dying child yields
//! `Timeout` / `(Abort ..)` for the step it died in and `Skipped` for the rest.
//!
//!   case    ::= (Case "<program>" <solver> [<step> ...] [<opt> ...])
//!   solver  ::= Slg | (SlgWith max_size) | Rec | (RecWith overflow_depth caching max_size)
//!   step    ::= (Solve "goal")
//!             | (Limited "goal" [i ...])     should_continue answers false at its i-th call (0-based, per step)
//!             | (LimitedFrom "goal" k)       ... at every call with index >= k
//!             | (PanicAt "goal" [n ...])     the n-th database call of this step (0-based) panics
//!   opt     ::= Checked | Trace | (Cpu secs) | (StackMb n) | (MemMb n)
//!               (Trace: each S gets a 6th field, the list of database callback names in call order)
//!   result  ::= (Result [<stepres> ...]) | (ProgramError "msg")
//!   stepres ::= (S <answer> db_calls continue_calls slg_work rec_work) | (GoalError "msg")
//!   answer  ::= as in solve.rs | (Panic "msg") | Timeout | (Abort "why") | Skipped
//! The counting / panicking database wrapper is generated from the delegating impl of
//! `WriteOnDropRustIrDatabase` (see tickdb_impl.rs); `interner()` is not counted.
//! Answer rendering, goal peeling and the child-process code are the ones of solve.rs.
use chalk_integration::db::ChalkDatabase;
use chalk_integration::interner::ChalkIr;
use chalk_integration::lowering::lower_goal;
use chalk_integration::program::Program;
use chalk_integration::query::LoweringDatabase;
use chalk_integration::{tls, SolverChoice};
use chalk_ir::*;
use chalk_solve::infer::ucanonicalize::UniverseMapExt;
use chalk_solve::infer::InferenceTable;
use chalk_solve::rust_ir::*;
use chalk_solve::{Guidance, RustIrDatabase, Solution, Solver};
use std::cell::Cell;
use std::io::{Read, Write};
use std::sync::Arc;
use vh::batch::{guarded, install_quiet_panic_hook};
use vh::sexp::{parse, Sexp};

// ---------------------------------------------------------------------------------------
// minimal libc surface (std already links libc; no crate needed)
// ---------------------------------------------------------------------------------------
#[repr(C)]
struct RLimit { cur: u64, max: u64 }
extern "C" {
    fn fork() -> i32;
    fn pipe(fds: *mut i32) -> i32;
    fn close(fd: i32) -> i32;
    fn read(fd: i32, buf: *mut u8, n: usize) -> isize;
    fn write(fd: i32, buf: *const u8, n: usize) -> isize;
    fn waitpid(pid: i32, status: *mut i32, options: i32) -> i32;
    fn setrlimit(resource: i32, rlim: *const RLimit) -> i32;
    fn _exit(code: i32) -> !;
    fn clock_gettime(clk: i32, ts: *mut [i64; 2]) -> i32;
}
const RLIMIT_CPU: i32 = 0;
const RLIMIT_AS: i32 = 9;
const CLOCK_PROCESS_CPUTIME_ID: i32 = 2;

fn cpu_seconds_used() -> u64 {
    let mut ts = [0i64; 2];
    unsafe { clock_gettime(CLOCK_PROCESS_CPUTIME_ID, &mut ts) };
    ts[0] as u64
}
fn set_cpu_limit(secs_from_now: u64) {
    let l = RLimit { cur: cpu_seconds_used() + secs_from_now, max: u64::MAX };
    unsafe { setrlimit(RLIMIT_CPU, &l) };
}


// ---------------------------------------------------------------------------------------
// counting / panicking database
// ---------------------------------------------------------------------------------------
pub const INJECTED: &str = "verif: injected database panic";

struct TickDb<'a> {
    db: &'a dyn RustIrDatabase<ChalkIr>,
    calls: Cell<u64>,
    panic_at: Vec<u64>,
    names: std::cell::RefCell<Vec<&'static str>>,
}

/// option `Trace`: every step also reports the names of the database callbacks it made, in order
static TRACE: std::sync::atomic::AtomicBool = std::sync::atomic::AtomicBool::new(false);

impl<'a> std::fmt::Debug for TickDb<'a> {
    fn fmt(&self, f: &mut std::fmt::Formatter<'_>) -> std::fmt::Result { write!(f, "TickDb") }
}

impl<'a> TickDb<'a> {
    fn tick(&self, name: &'static str) -> &'a dyn RustIrDatabase<ChalkIr> {
        let n = self.calls.get();
        self.calls.set(n + 1);
        if TRACE.load(std::sync::atomic::Ordering::Relaxed) { self.names.borrow_mut().push(name); }
        if self.panic_at.contains(&n) { panic!("{}", INJECTED); }
        self.db
    }
}

impl<'a> UnificationDatabase<ChalkIr> for TickDb<'a> {
    fn fn_def_variance(&self, fn_def_id: FnDefId<ChalkIr>) -> Variances<ChalkIr> {
        self.tick("fn_def_variance").unification_database().fn_def_variance(fn_def_id)
    }
    fn adt_variance(&self, adt_id: AdtId<ChalkIr>) -> Variances<ChalkIr> {
        self.tick("adt_variance").unification_database().adt_variance(adt_id)
    }
}

include!("../tickdb_impl.rs");

// ---------------------------------------------------------------------------------------
// chalk_ir -> S-expression (ids mapped back to names)
// ---------------------------------------------------------------------------------------

#[derive(Clone)]
struct Cfg { solver: SolverChoice, checked: bool, cpu: u64, stack_mb: usize, mem_mb: u64 }

fn parse_solver(s: &Sexp) -> Result<SolverChoice, String> {
    let a = s.args();
    match s.head() {
        Some("Slg") => Ok(SolverChoice::slg_default()),
        Some("SlgWith") => Ok(SolverChoice::slg(a[0].as_num()? as usize, None)),
        Some("Rec") => Ok(SolverChoice::recursive_default()),
        Some("RecWith") => Ok(SolverChoice::Recursive {
            overflow_depth: a[0].as_num()? as usize,
            caching_enabled: a[1].as_bool()?,
            max_size: a[2].as_num()? as usize,
        }),
        _ => Err(format!("bad solver {}", s)),
    }
}

#[derive(Clone, Debug)]
enum Step { Solve(String), Limited(String, Vec<u64>), LimitedFrom(String, u64), PanicAt(String, Vec<u64>) }

fn nums(s: &Sexp) -> Result<Vec<u64>, String> { s.as_list()?.iter().map(|x| x.as_num()).collect() }

fn parse_step(s: &Sexp) -> Result<Step, String> {
    let a = s.args();
    match s.head() {
        Some("Solve") => Ok(Step::Solve(a[0].as_str()?.to_string())),
        Some("Limited") => Ok(Step::Limited(a[0].as_str()?.to_string(), nums(&a[1])?)),
        Some("LimitedFrom") => Ok(Step::LimitedFrom(a[0].as_str()?.to_string(), a[1].as_num()?)),
        Some("PanicAt") => Ok(Step::PanicAt(a[0].as_str()?.to_string(), nums(&a[1])?)),
        _ => Err(format!("bad step {}", s)),
    }
}


struct Names<'a> { p: &'a Program, umap: Option<&'a UniverseMap> }

fn app(label: String, args: Vec<Sexp>) -> Sexp { Sexp::App("App".into(), vec![Sexp::Str(label), Sexp::List(args)]) }

impl<'a> Names<'a> {
    fn adt(&self, id: AdtId<ChalkIr>) -> String { self.p.adt_kinds.get(&id).map(|k| k.name.to_string()).unwrap_or(format!("{:?}", id)) }
    fn tr(&self, id: TraitId<ChalkIr>) -> String { self.p.trait_kinds.get(&id).map(|k| k.name.to_string()).unwrap_or(format!("{:?}", id)) }
    fn universe(&self, ui: UniverseIndex) -> u64 {
        match self.umap { Some(m) => m.map_universe_from_canonical(ui).counter as u64, None => ui.counter as u64 }
    }
    fn bound(&self, bv: BoundVar, depth: u32) -> Sexp {
        let d = bv.debruijn.depth();
        if d >= depth {
            if d == depth { Sexp::App("BV".into(), vec![Sexp::Num(bv.index as u64)]) }
            else { Sexp::App("OBV".into(), vec![Sexp::Num((d - depth) as u64), Sexp::Num(bv.index as u64)]) }
        } else {
            Sexp::App("IBV".into(), vec![Sexp::Num(d as u64), Sexp::Num(bv.index as u64)])
        }
    }
    fn ph(&self, p: PlaceholderIndex) -> Sexp {
        Sexp::App("Ph".into(), vec![Sexp::Num(self.universe(p.ui)), Sexp::Num(p.idx as u64)])
    }
    fn subst(&self, s: &Substitution<ChalkIr>, depth: u32) -> Vec<Sexp> {
        s.iter(ChalkIr).map(|g| self.garg(g, depth)).collect()
    }
    fn garg(&self, g: &GenericArg<ChalkIr>, depth: u32) -> Sexp {
        match g.data(ChalkIr) {
            GenericArgData::Ty(t) => self.ty(t, depth),
            GenericArgData::Lifetime(l) => self.lt(l, depth),
            GenericArgData::Const(c) => self.cst(c, depth),
        }
    }
    fn lt(&self, l: &Lifetime<ChalkIr>, depth: u32) -> Sexp {
        match l.data(ChalkIr) {
            LifetimeData::BoundVar(bv) => self.bound(*bv, depth),
            LifetimeData::InferenceVar(v) => app(format!("'?{}", v.index()), vec![]),
            LifetimeData::Placeholder(p) => self.ph(*p),
            LifetimeData::Static => app("'static".into(), vec![]),
            LifetimeData::Erased => app("'erased".into(), vec![]),
            LifetimeData::Error => app("'error".into(), vec![]),
            LifetimeData::Phantom(..) => unreachable!(),
        }
    }
    fn cst(&self, c: &Const<ChalkIr>, depth: u32) -> Sexp {
        let d = c.data(ChalkIr);
        match &d.value {
            ConstValue::BoundVar(bv) => self.bound(*bv, depth),
            ConstValue::InferenceVar(v) => app(format!("const?{}", v.index()), vec![]),
            ConstValue::Placeholder(p) => self.ph(*p),
            ConstValue::Concrete(cc) => app(format!("const:{:?}", cc.interned), vec![]),
        }
    }
    fn ty(&self, t: &Ty<ChalkIr>, depth: u32) -> Sexp {
        match t.kind(ChalkIr) {
            TyKind::Adt(id, s) => app(format!("adt:{}", self.adt(*id)), self.subst(s, depth)),
            TyKind::AssociatedType(id, s) => app(format!("assoc:{:?}", id), self.subst(s, depth)),
            TyKind::Scalar(sc) => app(format!("scalar:{:?}", sc), vec![]),
            TyKind::Tuple(n, s) => app(format!("tuple:{}", n), self.subst(s, depth)),
            TyKind::Array(t, c) => app("array".into(), vec![self.ty(t, depth), self.cst(c, depth)]),
            TyKind::Slice(t) => app("slice".into(), vec![self.ty(t, depth)]),
            TyKind::Raw(m, t) => app(format!("raw:{:?}", m), vec![self.ty(t, depth)]),
            TyKind::Ref(m, l, t) => app(format!("ref:{:?}", m), vec![self.lt(l, depth), self.ty(t, depth)]),
            TyKind::OpaqueType(id, s) => app(format!("opaque:{:?}", id), self.subst(s, depth)),
            TyKind::FnDef(id, s) => app(format!("fndef:{:?}", id), self.subst(s, depth)),
            TyKind::Str => app("str".into(), vec![]),
            TyKind::Never => app("never".into(), vec![]),
            TyKind::Closure(id, s) => app(format!("closure:{:?}", id), self.subst(s, depth)),
            TyKind::Coroutine(id, s) => app(format!("coroutine:{:?}", id), self.subst(s, depth)),
            TyKind::CoroutineWitness(id, s) => app(format!("coroutine_witness:{:?}", id), self.subst(s, depth)),
            TyKind::Foreign(id) => app(format!("foreign:{:?}", id), vec![]),
            TyKind::Error => app("error".into(), vec![]),
            TyKind::Placeholder(p) => self.ph(*p),
            // binder-carrying types are kept opaque: their Debug text is the label
            TyKind::Dyn(d) => app(format!("dyn:{:?}", d), vec![]),
            TyKind::Function(f) => app(format!("fnptr:{:?}", f), vec![]),
            TyKind::Alias(AliasTy::Projection(p)) => app(format!("proj:{:?}", p.associated_ty_id), self.subst(&p.substitution, depth)),
            TyKind::Alias(AliasTy::Opaque(o)) => app(format!("opaque_alias:{:?}", o.opaque_ty_id), self.subst(&o.substitution, depth)),
            TyKind::BoundVar(bv) => self.bound(*bv, depth),
            TyKind::InferenceVar(v, k) => app(format!("infer:{}:{:?}", v.index(), k), vec![]),
        }
    }
}

struct Peeled {
    goal: UCanonical<InEnvironment<Goal<ChalkIr>>>,
    universes: UniverseMap,
    prefix: Vec<Sexp>,
    /// for each user-level existential variable (peel order): its canonical index, if it occurs
    exist_to_canon: Vec<Option<usize>>,
}

/// `GoalExt::into_peeled_goal`, re-done with the public `InferenceTable` API so that we learn
/// which canonical variable each user-written `exists` variable became (canonicalisation
/// renumbers by first occurrence).
fn peel(goal: Goal<ChalkIr>) -> Peeled {
    let interner = ChalkIr;
    let mut infer: InferenceTable<ChalkIr> = InferenceTable::new();
    let mut prefix = vec![];
    let mut n_exists = 0usize;
    let mut n_universes = 0u64;
    let mut env_goal = InEnvironment::new(&Environment::new(interner), goal);
    let peeled = loop {
        let InEnvironment { environment, goal } = env_goal;
        match goal.data(interner) {
            GoalData::Quantified(QuantifierKind::ForAll, sub) => {
                let n = sub.binders.len(interner);
                if n > 0 { n_universes += 1; }
                for i in 0..n { prefix.push(Sexp::App("A".into(), vec![Sexp::Num(n_universes), Sexp::Num(i as u64)])); }
                let sub = infer.instantiate_binders_universally(interner, sub.clone());
                env_goal = InEnvironment::new(&environment, sub);
            }
            GoalData::Quantified(QuantifierKind::Exists, sub) => {
                let n = sub.binders.len(interner);
                for _ in 0..n { prefix.push(Sexp::atom("E")); }
                n_exists += n;
                let sub = infer.instantiate_binders_existentially(interner, sub.clone());
                env_goal = InEnvironment::new(&environment, sub);
            }
            GoalData::Implies(wc, sub) => {
                let new_env = environment.add_clauses(interner, wc.iter(interner).cloned());
                env_goal = InEnvironment::new(&new_env, Goal::clone(sub));
            }
            _ => break InEnvironment::new(&environment, goal),
        }
    };
    let canon = infer.canonicalize(interner, peeled);
    let mut exist_to_canon = vec![None; n_exists];
    for (k, v) in canon.free_vars.iter().enumerate() {
        let iv: InferenceVar = (*v.skip_kind()).into();
        let j = iv.index() as usize;
        assert!(j < n_exists, "inference variable numbering is not sequential");
        exist_to_canon[j] = Some(k);
    }
    let u = InferenceTable::u_canonicalize(interner, &canon.quantified);
    Peeled { goal: u.quantified, universes: u.universes, prefix, exist_to_canon }
}

fn subst_sexp(p: &Program, pe: &Peeled, binders: &CanonicalVarKinds<ChalkIr>, subst: &Substitution<ChalkIr>) -> (Sexp, Sexp) {
    let nm = Names { p, umap: Some(&pe.universes) };
    let us: Vec<Sexp> = binders.iter(ChalkIr).map(|b| Sexp::Num(nm.universe(*b.skip_kind()))).collect();
    let all: Vec<Sexp> = nm.subst(subst, 0);
    let tys: Vec<Sexp> = pe.exist_to_canon.iter().map(|k| match k {
        Some(k) if *k < all.len() => all[*k].clone(),
        _ => Sexp::atom("Free"),
    }).collect();
    (Sexp::List(us), Sexp::List(tys))
}

fn solution_sexp(p: &Program, pe: &Peeled, sol: Option<Solution<ChalkIr>>) -> Sexp {
    match sol {
        None => Sexp::atom("NoSolution"),
        Some(Solution::Unique(c)) => {
            let (us, tys) = subst_sexp(p, pe, &c.binders, &c.value.subst);
            Sexp::App("Unique".into(), vec![us, tys, Sexp::boolean(!c.value.constraints.is_empty(ChalkIr))])
        }
        Some(Solution::Ambig(Guidance::Definite(c))) => {
            let (us, tys) = subst_sexp(p, pe, &c.binders, &c.value);
            Sexp::App("AmbigDefinite".into(), vec![us, tys])
        }
        Some(Solution::Ambig(Guidance::Suggested(c))) => {
            let (us, tys) = subst_sexp(p, pe, &c.binders, &c.value);
            Sexp::App("AmbigSuggested".into(), vec![us, tys])
        }
        Some(Solution::Ambig(Guidance::Unknown)) => Sexp::atom("AmbigUnknown"),
    }
}


// child processes
/// Runs `f` in a forked child on a thread with `stack_mb` of stack; `f` streams result lines
/// through `emit`.  Returns the lines received and how the child ended.
enum End { Clean, Timeout, Abort(String) }

fn in_child(cfg: &Cfg, f: impl FnOnce(&mut dyn FnMut(String))) -> (Vec<String>, End) {
    let mut fds = [0i32; 2];
    if unsafe { pipe(fds.as_mut_ptr()) } != 0 { return (vec![], End::Abort("pipe failed".into())); }
    let _ = std::io::stdout().flush();
    let pid = unsafe { fork() };
    if pid < 0 { return (vec![], End::Abort("fork failed".into())); }
    if pid == 0 {
        unsafe { close(fds[0]) };
        let wfd = fds[1];
        let lim = RLimit { cur: cfg.mem_mb * 1024 * 1024, max: cfg.mem_mb * 1024 * 1024 };
        unsafe { setrlimit(RLIMIT_AS, &lim) };
        set_cpu_limit(cfg.cpu);
        let stack = cfg.stack_mb * 1024 * 1024;
        // the child is single-threaded: moving the (non-Send) database borrow to the one
        // worker thread, which exists only to get a stack of the requested size, is safe.
        struct AssertSend<T>(T);
        unsafe impl<T> Send for AssertSend<T> {}
        let f = AssertSend(f);
        let r = std::thread::scope(|s| {
            std::thread::Builder::new().stack_size(stack).spawn_scoped(s, move || {
                let f = f;
                let f = f.0;
                install_quiet_panic_hook();
                let mut emit = |line: String| {
                    let b = format!("{}\n", line).into_bytes();
                    let mut off = 0;
                    while off < b.len() {
                        let n = unsafe { write(wfd, b[off..].as_ptr(), b.len() - off) };
                        if n <= 0 { break; }
                        off += n as usize;
                    }
                };
                f(&mut emit);
            }).map(|h| h.join().is_ok()).unwrap_or(false)
        });
        unsafe { _exit(if r { 0 } else { 3 }) };
    }
    unsafe { close(fds[1]) };
    let mut data = Vec::new();
    let mut buf = [0u8; 65536];
    loop {
        let n = unsafe { read(fds[0], buf.as_mut_ptr(), buf.len()) };
        if n <= 0 { break; }
        data.extend_from_slice(&buf[..n as usize]);
    }
    unsafe { close(fds[0]) };
    let mut status = 0i32;
    unsafe { waitpid(pid, &mut status, 0) };
    let text = String::from_utf8_lossy(&data).to_string();
    let complete_upto = text.rfind('\n').map(|i| i + 1).unwrap_or(0);
    let lines: Vec<String> = text[..complete_upto].lines().map(|s| s.to_string()).collect();
    let sig = status & 0x7f;
    let end = if sig == 0 {
        let code = (status >> 8) & 0xff;
        if code == 0 { End::Clean } else { End::Abort(format!("exit code {}", code)) }
    } else if sig == 24 || sig == 9 {
        End::Timeout
    } else {
        End::Abort(format!("signal {}", sig))
    };
    (lines, end)
}

fn end_sexp(e: &End) -> Sexp {
    match e {
        End::Clean => Sexp::App("Abort".into(), vec![Sexp::Str("child ended without a result".into())]),
        End::Timeout => Sexp::atom("Timeout"),
        End::Abort(s) => Sexp::App("Abort".into(), vec![Sexp::Str(s.clone())]),
    }
}


fn do_step(db: &ChalkDatabase, program: &Arc<Program>, solver: &mut Box<dyn Solver<ChalkIr>>, step: &Step) -> Sexp {
    let (text, panic_at) = match step {
        Step::Solve(t) | Step::Limited(t, _) | Step::LimitedFrom(t, _) => (t, vec![]),
        Step::PanicAt(t, v) => (t, v.clone()),
    };
    let lowered = match chalk_parse::parse_goal(text) {
        Err(e) => return Sexp::App("GoalError".into(), vec![Sexp::Str(format!("parse: {}", e))]),
        Ok(g) => match lower_goal(&*g, &**program) {
            Err(e) => return Sexp::App("GoalError".into(), vec![Sexp::Str(format!("lower: {}", e))]),
            Ok(g) => g,
        },
    };
    let pe = peel(lowered);
    let tdb = TickDb { db, calls: Cell::new(0), panic_at, names: Default::default() };
    let sc_calls = Cell::new(0u64);
    chalk_engine::verif::reset_work();
    chalk_recursive::verif::reset_work();
    let ans = match guarded(|| match step {
        Step::Solve(_) | Step::PanicAt(..) => solution_sexp(program, &pe, solver.solve(&tdb, &pe.goal)),
        Step::Limited(..) | Step::LimitedFrom(..) => {
            let sol = solver.solve_limited(&tdb, &pe.goal, &|| {
                let i = sc_calls.get();
                sc_calls.set(i + 1);
                match step {
                    Step::Limited(_, v) => !v.contains(&i),
                    Step::LimitedFrom(_, k) => i < *k,
                    _ => true,
                }
            });
            solution_sexp(program, &pe, sol)
        }
    }) {
        Ok(s) => s,
        Err(msg) => Sexp::App("Panic".into(), vec![Sexp::Str(msg)]),
    };
    let mut fields = vec![ans, Sexp::Num(tdb.calls.get()), Sexp::Num(sc_calls.get()),
        Sexp::Num(chalk_engine::verif::work()), Sexp::Num(chalk_recursive::verif::work())];
    if TRACE.load(std::sync::atomic::Ordering::Relaxed) {
        fields.push(Sexp::List(tdb.names.borrow().iter().map(|n| Sexp::Atom((*n).into())).collect()));
    }
    Sexp::App("S".into(), fields)
}

fn load(cfg: &Cfg, text: &str) -> Result<(ChalkDatabase, Arc<Program>), String> {
    let db = ChalkDatabase::with(text, cfg.solver);
    let program = if cfg.checked { db.checked_program() } else { db.program_ir() };
    match program {
        Ok(p) => Ok((db, p)),
        Err(e) => Err(format!("{}", e)),
    }
}

fn run_case(case: &Sexp) -> Result<Sexp, String> {
    if case.head() != Some("Case") || case.args().len() < 3 { return Err("expected (Case prog solver steps opts)".into()); }
    let a = case.args();
    let text = a[0].as_str()?.to_string();
    let mut cfg = Cfg { solver: parse_solver(&a[1])?, checked: false, cpu: 10, stack_mb: 64, mem_mb: 4096 };
    let steps: Vec<Step> = a[2].as_list()?.iter().map(parse_step).collect::<Result<_, _>>()?;
    let mut trace = false;
    if a.len() > 3 {
        for o in a[3].as_list()? {
            match o.head() {
                Some("Checked") => cfg.checked = true,
                Some("Trace") => trace = true,
                Some("Cpu") => cfg.cpu = o.args()[0].as_num()?,
                Some("StackMb") => cfg.stack_mb = o.args()[0].as_num()? as usize,
                Some("MemMb") => cfg.mem_mb = o.args()[0].as_num()?,
                _ => return Err(format!("bad option {}", o)),
            }
        }
    }
    TRACE.store(trace, std::sync::atomic::Ordering::Relaxed);
    let n = steps.len();
    let (lines, end) = in_child(&cfg, |emit| {
        match guarded(|| load(&cfg, &text)) {
            Ok(Ok((db, p))) => {
                emit("Loaded".to_string());
                tls::set_current_program(&p, || {
                    let mut solver = cfg.solver.into_solver();
                    for st in &steps {
                        set_cpu_limit(cfg.cpu);
                        emit(do_step(&db, &p, &mut solver, st).to_string());
                    }
                });
            }
            Ok(Err(e)) => emit(Sexp::App("ProgramError".into(), vec![Sexp::Str(e)]).to_string()),
            Err(m) => emit(Sexp::App("ProgramError".into(), vec![Sexp::Str(format!("panic: {}", m))]).to_string()),
        }
    });
    match lines.first().map(|s| s.as_str()) {
        None => return Ok(Sexp::App("ProgramError".into(), vec![Sexp::Str(format!("lowering died: {}", end_sexp(&end)))])),
        Some("Loaded") => {}
        Some(l) => return parse(l),
    }
    let mut results = vec![];
    for l in &lines[1..] { results.push(parse(l)?); }
    if results.len() < n {
        results.push(Sexp::App("S".into(), vec![end_sexp(&end), Sexp::Num(0), Sexp::Num(0), Sexp::Num(0), Sexp::Num(0)]));
        while results.len() < n {
            results.push(Sexp::App("S".into(), vec![Sexp::atom("Skipped"), Sexp::Num(0), Sexp::Num(0), Sexp::Num(0), Sexp::Num(0)]));
        }
    }
    Ok(Sexp::App("Result".into(), vec![Sexp::List(results)]))
}

fn main() {
    install_quiet_panic_hook();
    // warm-up in the parent (lexer tables, tracing callsites ...) so that children do not repeat it
    let _ = guarded(|| {
        let wcfg = Cfg { solver: SolverChoice::slg_default(), checked: false, cpu: 10, stack_mb: 8, mem_mb: 4096 };
        if let Ok((db, p)) = load(&wcfg, "struct WarmS<T> {} struct WarmZ {} trait WarmT {} impl WarmT for WarmZ {} impl<T> WarmT for WarmS<T> where T: WarmT {}") {
            tls::set_current_program(&p, || {
                for sc in [SolverChoice::slg_default(), SolverChoice::recursive_default()] {
                    let mut solver = sc.into_solver();
                    let _ = do_step(&db, &p, &mut solver, &Step::Solve("exists<A> { WarmS<A>: WarmT }".into()));
                }
            });
        }
    });
    let mut input = String::new();
    let _ = std::io::stdin().lock().read_to_string(&mut input);
    for line in input.lines() {
        if line.trim().is_empty() { continue; }
        let out = match parse(line) {
            Err(e) => Sexp::App("BadInput".into(), vec![Sexp::Str(e)]),
            Ok(case) => match guarded(|| run_case(&case)) {
                Ok(Ok(r)) => r,
                Ok(Err(e)) => Sexp::App("BadInput".into(), vec![Sexp::Str(e)]),
                Err(p) => Sexp::App("Panic".into(), vec![Sexp::Str(p)]),
            },
        };
        let stdout = std::io::stdout();
        let mut o = stdout.lock();
        let _ = writeln!(o, "{}", out);
        let _ = o.flush();
    }
}
