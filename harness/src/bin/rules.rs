//! `rules` — dumps the program clauses the REAL code generates for closed `Implemented` goals
//! (`chalk_solve::clauses::program_clauses_for_goal`: explicit impls that could match, the
//! auto-trait clauses of `push_auto_trait_impls`, the built-in clauses of
//! `add_builtin_program_clauses`, the trait's own clauses), for the structural correspondence
//! of the rule models Rules/Auto.v and Rules/Builtin.v (C05, C08).
//!
//!   case    ::= (Case "<program text>" ["<goal text>" ...])
//!   result  ::= (Result [<goalres> ...]) | (ProgramError "msg")
//!   goalres ::= (Clauses <atom> [<clause> ...]) | (Floundered <atom>) | (GoalError "msg") | (Panic "msg")
//!   clause  ::= (Clause nbinders <atom> [<atom> ...])
//!   atom    ::= (Impl "Trait" [<ty> ...]) | (Other "debug text")
//!   ty      ::= (App "label" [<ty> ...]) | (BV i) | (IBV d i) | (Ph u i) | Lt
//!               labels: adt:Name scalar:U8 tuple:n array slice ref:Not ref:Mut raw:Not raw:Mut str never
//!               fnptr:<safe|unsafe>:<abi>:<variadic> dyn:Tr1+Tr2 foreign:Name const:v; lifetimes are `Lt`
//! A goal must be `T: Trait<..>`, possibly under outer `forall<'a, ..>` binders.
use chalk_integration::db::ChalkDatabase;
use chalk_integration::interner::ChalkIr;
use chalk_integration::lowering::lower_goal;
use chalk_integration::program::Program;
use chalk_integration::query::LoweringDatabase;
use chalk_integration::{tls, SolverChoice};
use chalk_ir::*;
use chalk_solve::infer::InferenceTable;
use vh::batch::{guarded, run_batch};
use vh::sexp::Sexp;

fn app(label: String, args: Vec<Sexp>) -> Sexp { Sexp::App("App".into(), vec![Sexp::Str(label), Sexp::List(args)]) }

struct Names<'a> { p: &'a Program }

impl<'a> Names<'a> {
    fn adt(&self, id: AdtId<ChalkIr>) -> String { self.p.adt_kinds.get(&id).map(|k| k.name.to_string()).unwrap_or(format!("{:?}", id)) }
    fn tr(&self, id: TraitId<ChalkIr>) -> String { self.p.trait_kinds.get(&id).map(|k| k.name.to_string()).unwrap_or(format!("{:?}", id)) }
    fn foreign(&self, id: ForeignDefId<ChalkIr>) -> String {
        self.p.foreign_ty_ids.iter().find(|(_, v)| **v == id).map(|(k, _)| k.to_string()).unwrap_or(format!("{:?}", id))
    }
    fn bound(&self, bv: BoundVar, depth: u32) -> Sexp {
        let d = bv.debruijn.depth();
        if d >= depth { Sexp::App("BV".into(), vec![Sexp::Num(bv.index as u64)]) }
        else { Sexp::App("IBV".into(), vec![Sexp::Num(d as u64), Sexp::Num(bv.index as u64)]) }
    }
    fn subst(&self, s: &Substitution<ChalkIr>, depth: u32) -> Vec<Sexp> { s.iter(ChalkIr).map(|g| self.garg(g, depth)).collect() }
    fn garg(&self, g: &GenericArg<ChalkIr>, depth: u32) -> Sexp {
        match g.data(ChalkIr) {
            GenericArgData::Ty(t) => self.ty(t, depth),
            GenericArgData::Lifetime(_) => Sexp::atom("Lt"),
            GenericArgData::Const(c) => self.cst(c, depth),
        }
    }
    fn cst(&self, c: &Const<ChalkIr>, depth: u32) -> Sexp {
        match &c.data(ChalkIr).value {
            ConstValue::BoundVar(bv) => self.bound(*bv, depth),
            ConstValue::InferenceVar(v) => app(format!("const?{}", v.index()), vec![]),
            ConstValue::Placeholder(p) => Sexp::App("Ph".into(), vec![Sexp::Num(p.ui.counter as u64), Sexp::Num(p.idx as u64)]),
            ConstValue::Concrete(cc) => app(format!("const:{:?}", cc.interned), vec![]),
        }
    }
    fn ty(&self, t: &Ty<ChalkIr>, depth: u32) -> Sexp {
        match t.kind(ChalkIr) {
            TyKind::Adt(id, s) => app(format!("adt:{}", self.adt(*id)), self.subst(s, depth)),
            TyKind::Scalar(sc) => app(format!("scalar:{:?}", sc), vec![]),
            TyKind::Tuple(n, s) => app(format!("tuple:{}", n), self.subst(s, depth)),
            TyKind::Array(t, c) => app("array".into(), vec![self.ty(t, depth), self.cst(c, depth)]),
            TyKind::Slice(t) => app("slice".into(), vec![self.ty(t, depth)]),
            TyKind::Raw(m, t) => app(format!("raw:{:?}", m), vec![self.ty(t, depth)]),
            TyKind::Ref(m, _l, t) => app(format!("ref:{:?}", m), vec![self.ty(t, depth)]),
            TyKind::Str => app("str".into(), vec![]),
            TyKind::Never => app("never".into(), vec![]),
            TyKind::Foreign(id) => app(format!("foreign:{}", self.foreign(*id)), vec![]),
            TyKind::Placeholder(p) => Sexp::App("Ph".into(), vec![Sexp::Num(p.ui.counter as u64), Sexp::Num(p.idx as u64)]),
            TyKind::Function(f) => {
                let args: Vec<Sexp> = f.substitution.0.iter(ChalkIr).map(|g| self.garg(g, depth + 1)).collect();
                app(format!("fnptr:{:?}:{:?}:{}", f.sig.safety, f.sig.abi, f.sig.variadic), args)
            }
            TyKind::Dyn(d) => {
                let mut names: Vec<String> = d.bounds.skip_binders().iter(ChalkIr).map(|q| match q.skip_binders() {
                    WhereClause::Implemented(tr) => self.tr(tr.trait_id),
                    o => format!("{:?}", o),
                }).collect();
                names.sort();
                app(format!("dyn:{}", names.join("+")), vec![])
            }
            TyKind::BoundVar(bv) => self.bound(*bv, depth),
            TyKind::InferenceVar(v, k) => app(format!("infer:{}:{:?}", v.index(), k), vec![]),
            other => app(format!("other:{:?}", other), vec![]),
        }
    }
    fn domain_goal(&self, dg: &DomainGoal<ChalkIr>, depth: u32) -> Sexp {
        match dg {
            DomainGoal::Holds(WhereClause::Implemented(tr)) =>
                Sexp::App("Impl".into(), vec![Sexp::Str(self.tr(tr.trait_id)), Sexp::List(self.subst(&tr.substitution, depth))]),
            o => Sexp::App("Other".into(), vec![Sexp::Str(format!("{:?}", o))]),
        }
    }
    fn goal(&self, g: &Goal<ChalkIr>, depth: u32) -> Sexp {
        match g.data(ChalkIr) {
            GoalData::DomainGoal(dg) => self.domain_goal(dg, depth),
            // where-clauses are lowered as `forall<> { WC }` with an empty binder
            GoalData::Quantified(QuantifierKind::ForAll, sub) if sub.binders.len(ChalkIr) == 0 => self.goal(sub.skip_binders(), depth + 1),
            o => Sexp::App("Other".into(), vec![Sexp::Str(format!("{:?}", o))]),
        }
    }
    fn clause(&self, c: &ProgramClause<ChalkIr>) -> Sexp {
        let ProgramClauseData(b) = c.data(ChalkIr);
        let n = b.binders.len(ChalkIr);
        let imp = b.skip_binders();
        // variables of the clause's own binder are (BV i): they sit at debruijn depth 0 inside it
        let conds: Vec<Sexp> = imp.conditions.iter(ChalkIr).map(|g| self.goal(g, 0)).collect();
        Sexp::App("Clause".into(), vec![Sexp::Num(n as u64), self.domain_goal(&imp.consequence, 0), Sexp::List(conds)])
    }
}

fn one_goal(db: &ChalkDatabase, p: &Program, text: &str) -> Sexp {
    let lowered = match chalk_parse::parse_goal(text) {
        Err(e) => return Sexp::App("GoalError".into(), vec![Sexp::Str(format!("parse: {}", e))]),
        Ok(g) => match lower_goal(&*g, p) {
            Err(e) => return Sexp::App("GoalError".into(), vec![Sexp::Str(format!("lower: {}", e))]),
            Ok(g) => g,
        },
    };
    let interner = ChalkIr;
    let mut infer: InferenceTable<ChalkIr> = InferenceTable::new();
    let mut goal = lowered;
    loop {
        let next = match goal.data(interner) {
            GoalData::Quantified(QuantifierKind::ForAll, sub) => infer.instantiate_binders_universally(interner, sub.clone()),
            _ => break,
        };
        goal = next;
    }
    let dg = match goal.data(interner) {
        GoalData::DomainGoal(dg) => dg.clone(),
        o => return Sexp::App("GoalError".into(), vec![Sexp::Str(format!("not a domain goal: {:?}", o))]),
    };
    let nm = Names { p };
    let atom = nm.domain_goal(&dg, 0);
    let env_goal = InEnvironment::new(&Environment::new(interner), dg);
    let canon = infer.canonicalize(interner, env_goal);
    let u = InferenceTable::u_canonicalize(interner, &canon.quantified);
    match guarded(|| chalk_solve::clauses::program_clauses_for_goal(db, &u.quantified)) {
        Err(m) => Sexp::App("Panic".into(), vec![Sexp::Str(m)]),
        Ok(Err(_)) => Sexp::App("Floundered".into(), vec![atom]),
        Ok(Ok(cls)) => Sexp::App("Clauses".into(), vec![atom, Sexp::List(cls.iter().map(|c| nm.clause(c)).collect())]),
    }
}

fn run_case(case: &Sexp) -> Result<Sexp, String> {
    if case.head() != Some("Case") || case.args().len() < 2 { return Err("expected (Case prog goals)".into()); }
    let a = case.args();
    let text = a[0].as_str()?.to_string();
    let goals: Vec<String> = a[1].as_list()?.iter().map(|g| g.as_str().map(|s| s.to_string())).collect::<Result<_, _>>()?;
    let db = ChalkDatabase::with(&text, SolverChoice::slg_default());
    let program = match db.program_ir() {
        Ok(p) => p,
        Err(e) => return Ok(Sexp::App("ProgramError".into(), vec![Sexp::Str(format!("{}", e))])),
    };
    let res = tls::set_current_program(&program, || goals.iter().map(|g| one_goal(&db, &program, g)).collect::<Vec<_>>());
    Ok(Sexp::App("Result".into(), vec![Sexp::List(res)]))
}

fn main() { run_batch(run_case); }
