//! Agg family (property C17): the real answer-aggregation functions of chalk, called through
//! hook H2 (`chalk_engine::slg::verif`, `chalk_recursive::combine_verif`) on values given in the
//! shared term syntax.
//!
//!   binders ::= [(Pair <vkind> <universe>) ...]          canonical binders, in order
//!   csubst  ::= (Pair binders [<term> ...])               Canonical<Substitution>
//!   sol     ::= (Unique binders [<term>..] [<constraint>..]) | (Ambig (Definite binders [..]))
//!             | (Ambig (Suggested binders [..])) | (Ambig Unknown)
//!   constraint ::= (Node HConstraint [(Node HList []) (Node HLtOutlives [a b]) | (Node HTyOutlives [t l])])
//!
//!   (Agg u a b)                    AntiUnifier::aggregate_generic_args in a fresh InferenceTable, universe u;
//!                                  -> (Pair [<vkind of fresh var> ...] term), fresh variables renamed to
//!                                  bound variables ^0.k by first occurrence
//!   (Merge binders csubst csubst)  merge_into_guidance(root binders, guidance, answer) -> csubst
//!   (MergeSeq binders [csubst..])  left fold of merge_into_guidance -> [csubst ...] (guidance after each merge)
//!   (IsTrivial csubst)             -> bool
//!   (MayInv [new..] csubst)        Substitution::may_invalidate(new, current) -> bool
//!   (Combine sol sol)              Solution::combine -> sol
//!   (WithPrio dg sol prio sol prio) with_priorities -> (Pair sol prio)
//!   (Inputs dg sol)                calculate_inputs -> [term ...]
//!   (MakeSolution binders [event..] [[strand subst]..])
//!                                  AggregateOps::make_solution over a scripted answer stream -> (Some sol) | None
//!                                  event ::= (EAnswer csubst [constraint..] ambiguous) | EFloundered | EQuantum;
//!                                  peek looks at the first remaining event, next removes it, an exhausted script is
//!                                  NoMoreSolutions; any_future_answer ranges over the remaining answers, then the strands
//!   (Solve "program" "goal")       the SLG solver end to end -> sol | NoSolution
use chalk_engine::context::{AnswerResult, AnswerStream};
use chalk_engine::slg::verif as h2;
use chalk_engine::CompleteAnswer;
use chalk_integration::db::ChalkDatabase;
use chalk_integration::interner::ChalkIr;
use chalk_integration::lowering::lower_goal;
use chalk_integration::query::LoweringDatabase;
use chalk_integration::{tls, SolverChoice};
use chalk_ir::*;
use chalk_recursive::combine_verif as h2r;
use chalk_solve::ext::GoalExt;
use chalk_solve::infer::InferenceTable;
use chalk_solve::{Guidance, Solution};
use vh::ir::*;
use vh::sexp::Sexp;

const I: ChalkIr = ChalkIr;
type R<T> = Result<T, String>;

fn pair(a: Sexp, b: Sexp) -> Sexp { Sexp::app("Pair", vec![a, b]) }

fn unpair(s: &Sexp) -> R<(&Sexp, &Sexp)> {
    if s.head() == Some("Pair") && s.args().len() == 2 { Ok((&s.args()[0], &s.args()[1])) } else { Err(format!("expected Pair, got {}", s)) }
}

fn binders(s: &Sexp) -> R<CanonicalVarKinds<ChalkIr>> {
    let v: R<Vec<_>> = s
        .as_list()?
        .iter()
        .map(|b| {
            let (k, u) = unpair(b)?;
            Ok(WithKind::new(vkind(k)?, UniverseIndex { counter: u.as_num()? as usize }))
        })
        .collect();
    Ok(CanonicalVarKinds::from_iter(I, v?))
}

fn binders_sx(b: &CanonicalVarKinds<ChalkIr>) -> Sexp {
    Sexp::List(b.iter(I).map(|w| pair(vkind_sx(&w.kind), Sexp::num(w.skip_kind().counter as u64))).collect())
}

fn csubst(s: &Sexp) -> R<Canonical<Substitution<ChalkIr>>> {
    let (b, v) = unpair(s)?;
    Ok(Canonical { binders: binders(b)?, value: to_subst(v.as_list()?)? })
}

fn csubst_sx(c: &Canonical<Substitution<ChalkIr>>) -> Sexp { pair(binders_sx(&c.binders), Sexp::List(subst_sx(&c.value))) }

fn node_parts(s: &Sexp) -> R<(&Sexp, &[Sexp])> {
    if s.head() != Some("Node") || s.args().len() != 2 { return Err(format!("expected Node, got {}", s)); }
    Ok((&s.args()[0], s.args()[1].as_list()?))
}

fn constraint(s: &Sexp) -> R<InEnvironment<Constraint<ChalkIr>>> {
    let (h, cs) = node_parts(s)?;
    if h.head() != Some("HConstraint") || cs.len() != 2 { return Err(format!("expected HConstraint, got {}", s)); }
    let (ch, ccs) = node_parts(&cs[1])?;
    if ccs.len() != 2 { return Err("constraint arity".into()); }
    let goal = match ch.head().unwrap_or("") {
        "HLtOutlives" => Constraint::LifetimeOutlives(to_lifetime(&ccs[0])?, to_lifetime(&ccs[1])?),
        "HTyOutlives" => Constraint::TypeOutlives(to_ty(&ccs[0])?, to_lifetime(&ccs[1])?),
        o => return Err(format!("constraint head {}", o)),
    };
    Ok(InEnvironment::new(&Environment::new(I), goal))
}

fn constraint_sx(c: &InEnvironment<Constraint<ChalkIr>>) -> Sexp {
    let n = |h: &str, cs: Vec<Sexp>| Sexp::app("Node", vec![Sexp::atom(h), Sexp::List(cs)]);
    let g = match &c.goal {
        Constraint::LifetimeOutlives(a, b) => n("HLtOutlives", vec![lifetime_sx(a), lifetime_sx(b)]),
        Constraint::TypeOutlives(a, b) => n("HTyOutlives", vec![ty_sx(a), lifetime_sx(b)]),
    };
    n("HConstraint", vec![n("HList", c.environment.clauses.iter(I).map(clause_sx).collect()), g])
}

fn solution(s: &Sexp) -> R<Solution<ChalkIr>> {
    let a = s.args();
    match s.head() {
        Some("Unique") if a.len() == 3 => {
            let cs: R<Vec<_>> = a[2].as_list()?.iter().map(constraint).collect();
            Ok(Solution::Unique(Canonical {
                binders: binders(&a[0])?,
                value: ConstrainedSubst { subst: to_subst(a[1].as_list()?)?, constraints: Constraints::from_iter(I, cs?) },
            }))
        }
        Some("Ambig") if a.len() == 1 => {
            let g = &a[0];
            let ga = g.args();
            Ok(Solution::Ambig(match g.head() {
                Some("Definite") if ga.len() == 2 => Guidance::Definite(Canonical { binders: binders(&ga[0])?, value: to_subst(ga[1].as_list()?)? }),
                Some("Suggested") if ga.len() == 2 => Guidance::Suggested(Canonical { binders: binders(&ga[0])?, value: to_subst(ga[1].as_list()?)? }),
                Some("Unknown") => Guidance::Unknown,
                _ => return Err(format!("guidance {}", g)),
            }))
        }
        _ => Err(format!("solution {}", s)),
    }
}

fn solution_sx(s: &Solution<ChalkIr>) -> Sexp {
    match s {
        Solution::Unique(c) => Sexp::app("Unique", vec![
            binders_sx(&c.binders),
            Sexp::List(subst_sx(&c.value.subst)),
            Sexp::List(c.value.constraints.iter(I).map(constraint_sx).collect()),
        ]),
        Solution::Ambig(Guidance::Definite(c)) => Sexp::app("Ambig", vec![Sexp::app("Definite", vec![binders_sx(&c.binders), Sexp::List(subst_sx(&c.value))])]),
        Solution::Ambig(Guidance::Suggested(c)) => Sexp::app("Ambig", vec![Sexp::app("Suggested", vec![binders_sx(&c.binders), Sexp::List(subst_sx(&c.value))])]),
        Solution::Ambig(Guidance::Unknown) => Sexp::app("Ambig", vec![Sexp::atom("Unknown")]),
    }
}

fn prio(s: &Sexp) -> R<ClausePriority> {
    match s.head() { Some("High") => Ok(ClausePriority::High), Some("Low") => Ok(ClausePriority::Low), _ => Err(format!("priority {}", s)) }
}
fn prio_sx(p: ClausePriority) -> Sexp { Sexp::atom(match p { ClausePriority::High => "High", ClausePriority::Low => "Low" }) }

fn root_goal(b: &Sexp) -> R<Canonical<InEnvironment<Goal<ChalkIr>>>> {
    Ok(Canonical { binders: binders(b)?, value: InEnvironment::new(&Environment::new(I), GoalData::CannotProve.intern(I)) })
}

fn answer_of(c: &Canonical<Substitution<ChalkIr>>) -> Canonical<ConstrainedSubst<ChalkIr>> {
    Canonical { binders: c.binders.clone(), value: ConstrainedSubst { subst: c.value.clone(), constraints: Constraints::empty(I) } }
}

/// Rename the inference variables with index < `nfresh` (the ones the anti-unifier created) to bound
/// variables `^0.k`, `k` = order of first occurrence; collects the kind of each.
fn rename_fresh(s: &Sexp, nfresh: u64, map: &mut Vec<u64>, kinds: &mut Vec<Sexp>) -> Sexp {
    if let Sexp::App(h, a) = s {
        if h == "Node" && a.len() == 2 {
            let hd = &a[0];
            let (name, v) = (hd.head().unwrap_or(""), hd.args().get(0).and_then(|x| x.as_num().ok()));
            if let (true, Some(v)) = (matches!(name, "HInfer" | "HLInfer" | "HCInfer"), v) {
                if v < nfresh {
                    let k = match map.iter().position(|x| *x == v) {
                        Some(k) => k,
                        None => {
                            map.push(v);
                            kinds.push(match name {
                                "HInfer" => Sexp::app("VTy", vec![hd.args()[1].clone()]),
                                "HLInfer" => Sexp::atom("VLt"),
                                _ => Sexp::atom("VConst"),
                            });
                            map.len() - 1
                        }
                    } as u64;
                    return match name {
                        "HInfer" => Sexp::app("Var", vec![Sexp::atom("STy"), Sexp::num(0), Sexp::num(k)]),
                        "HLInfer" => Sexp::app("Var", vec![Sexp::atom("SLt"), Sexp::num(0), Sexp::num(k)]),
                        _ => {
                            let cty = a[1].as_list().ok().and_then(|l| l.get(0)).cloned().unwrap_or(Sexp::atom("?"));
                            Sexp::app("CVar", vec![Sexp::num(0), Sexp::num(k), rename_fresh(&cty, nfresh, map, kinds)])
                        }
                    };
                }
            }
        }
        return Sexp::App(h.clone(), a.iter().map(|x| rename_fresh(x, nfresh, map, kinds)).collect());
    }
    if let Sexp::List(v) = s {
        return Sexp::List(v.iter().map(|x| rename_fresh(x, nfresh, map, kinds)).collect());
    }
    s.clone()
}

enum Event { Answer(CompleteAnswer<ChalkIr>), Floundered, Quantum }

struct Script { events: Vec<Event>, pos: usize, strands: Vec<Substitution<ChalkIr>> }

impl Script {
    fn at(&self) -> AnswerResult<ChalkIr> {
        match self.events.get(self.pos) {
            None => AnswerResult::NoMoreSolutions,
            Some(Event::Answer(a)) => AnswerResult::Answer(a.clone()),
            Some(Event::Floundered) => AnswerResult::Floundered,
            Some(Event::Quantum) => AnswerResult::QuantumExceeded,
        }
    }
}

impl AnswerStream<ChalkIr> for Script {
    fn peek_answer(&mut self, _: impl Fn() -> bool) -> AnswerResult<ChalkIr> { self.at() }
    fn next_answer(&mut self, _: impl Fn() -> bool) -> AnswerResult<ChalkIr> {
        let r = self.at();
        if self.pos < self.events.len() { self.pos += 1; }
        r
    }
    fn any_future_answer(&self, test: impl Fn(&Substitution<ChalkIr>) -> bool) -> bool {
        for e in &self.events[self.pos.min(self.events.len())..] {
            if let Event::Answer(a) = e {
                if test(&a.subst.value.subst) { return true; }
            }
        }
        self.strands.iter().any(|s| test(s))
    }
}

fn event(s: &Sexp) -> R<Event> {
    let a = s.args();
    match s.head() {
        Some("EAnswer") if a.len() == 3 => {
            let c = csubst(&a[0])?;
            let cs: R<Vec<_>> = a[1].as_list()?.iter().map(constraint).collect();
            Ok(Event::Answer(CompleteAnswer {
                subst: Canonical { binders: c.binders, value: ConstrainedSubst { subst: c.value, constraints: Constraints::from_iter(I, cs?) } },
                ambiguous: a[2].as_bool()?,
            }))
        }
        Some("EFloundered") => Ok(Event::Floundered),
        Some("EQuantum") => Ok(Event::Quantum),
        _ => Err(format!("event {}", s)),
    }
}

fn make_solution(root: &Sexp, events: &Sexp, strands: &Sexp) -> R<Sexp> {
    let canonical = root_goal(root)?;
    let universes = canonical.binders.iter(I).map(|b| b.skip_kind().counter).max().map(|m| m + 1).unwrap_or(1);
    let ucanonical = UCanonical { canonical, universes };
    let ev: R<Vec<_>> = events.as_list()?.iter().map(event).collect();
    let st: R<Vec<_>> = strands.as_list()?.iter().map(|x| to_subst(x.as_list()?)).collect();
    let script = Script { events: ev?, pos: 0, strands: st? };
    let db = ChalkDatabase::with("", SolverChoice::slg_default());
    Ok(match h2::make_solution(&db, &ucanonical, script, || true) {
        Some(s) => Sexp::app("Some", vec![solution_sx(&s)]),
        None => Sexp::atom("None"),
    })
}

fn solve(text: &str, goal: &str) -> R<Sexp> {
    let db = ChalkDatabase::with(text, SolverChoice::slg_default());
    let program = db.program_ir().map_err(|e| format!("program: {}", e))?;
    tls::set_current_program(&program, || {
        let g = chalk_parse::parse_goal(goal).map_err(|e| format!("goal: {}", e))?;
        let g = lower_goal(&*g, &*program).map_err(|e| format!("goal: {}", e))?;
        let peeled = g.into_peeled_goal(I);
        let mut solver = SolverChoice::slg_default().into_solver();
        Ok(match solver.solve(&db, &peeled) {
            Some(s) => solution_sx(&s),
            None => Sexp::atom("NoSolution"),
        })
    })
}

fn main() {
    vh::batch::run_batch(|c| {
        let a = c.args();
        match c.head().unwrap_or("") {
            "Agg" => {
                let u = UniverseIndex { counter: a[0].as_num()? as usize };
                let (p1, p2) = (to_garg(&a[1])?, to_garg(&a[2])?);
                let mut infer: InferenceTable<ChalkIr> = InferenceTable::new();
                let r = h2::aggregate_generic_args(I, &mut infer, u, &p1, &p2);
                let nfresh = match infer.new_variable(u).to_ty(I).kind(I) { TyKind::InferenceVar(v, _) => v.index() as u64, _ => unreachable!() };
                let (mut map, mut kinds) = (vec![], vec![]);
                let t = rename_fresh(&garg_sx(&r), nfresh, &mut map, &mut kinds);
                Ok(pair(Sexp::List(kinds), t))
            }
            "Merge" => {
                let root = root_goal(&a[0])?;
                let g = csubst(&a[1])?;
                let ans = answer_of(&csubst(&a[2])?);
                Ok(csubst_sx(&h2::merge_into_guidance(I, &root, g, &ans)))
            }
            "MergeSeq" => {
                let root = root_goal(&a[0])?;
                let l = a[1].as_list()?;
                if l.is_empty() { return Err("MergeSeq: empty".into()); }
                let mut g = csubst(&l[0])?;
                let mut out = vec![];
                for s in &l[1..] {
                    g = h2::merge_into_guidance(I, &root, g, &answer_of(&csubst(s)?));
                    out.push(csubst_sx(&g));
                }
                Ok(Sexp::List(out))
            }
            "IsTrivial" => Ok(Sexp::boolean(h2::is_trivial(I, &csubst(&a[0])?))),
            "MayInv" => {
                let new = to_subst(a[0].as_list()?)?;
                Ok(Sexp::boolean(h2::may_invalidate(I, &new, &csubst(&a[1])?)))
            }
            "Combine" => Ok(solution_sx(&solution(&a[0])?.combine(solution(&a[1])?, I))),
            "WithPrio" => {
                let dg = to_domain_goal(&a[0])?;
                let (s, p) = h2r::with_priorities(I, &dg, solution(&a[1])?, prio(&a[2])?, solution(&a[3])?, prio(&a[4])?);
                Ok(pair(solution_sx(&s), prio_sx(p)))
            }
            "Inputs" => {
                let dg = to_domain_goal(&a[0])?;
                Ok(Sexp::List(h2r::calculate_inputs(I, &dg, &solution(&a[1])?).iter().map(garg_sx).collect()))
            }
            "MakeSolution" => make_solution(&a[0], &a[1], &a[2]),
            "Solve" => solve(a[0].as_str()?, a[1].as_str()?),
            o => Err(format!("unknown op {}", o)),
        }
    });
}
