//! `logdb` — goal sequences solved through the real `LoggingRustIrDatabase` (property C23).
//!
//! One S-expression case per stdin line, one result line per case; the whole case runs in a
//! forked child (CPU / address-space limit, own thread stack).
//!
//!   case   ::= (Case "<program>" ["<goal>" ...] <solver> <mode> [<opt> ...])
//!   solver ::= Slg | (SlgWith max_size) | Rec | (RecWith overflow_depth caching max_size)
//!              the solver that runs on the recording wrapper
//!   mode   ::= Fresh | History           a new solver per goal / one solver for the whole sequence
//!   opt    ::= (Cpu secs) | (StackMb n) | (MemMb n)
//!   result ::= (Result "<printed program>" <dump of the original program>
//!                      [<goalres through the wrapper> ...]
//!                      [<goalres original slg> ...] [<goalres original rec> ...]
//!                      <reparsed>)
//!            | (ProgramError "msg") | Timeout | (Abort "why")
//!   reparsed ::= (Reparsed <dump of the re-lowered program> [<goalres slg> ...] [<goalres rec> ...])
//!              | (ReparseError "msg")
//!   goalres, dump: as in solve.rs (answers are rendered with item NAMES, so that answers on the
//!   original and on the re-lowered program are comparable).
//! Answer rendering, goal peeling, the dump and the child-process code are the ones of solve.rs.
use chalk_integration::db::ChalkDatabase;
use chalk_integration::interner::ChalkIr;
use chalk_integration::lowering::lower_goal;
use chalk_integration::program::Program;
use chalk_integration::query::LoweringDatabase;
use chalk_integration::{tls, SolverChoice};
use chalk_ir::*;
use chalk_solve::infer::ucanonicalize::UniverseMapExt;
use chalk_solve::infer::InferenceTable;
use chalk_solve::rust_ir::Polarity;
use chalk_solve::logging_db::LoggingRustIrDatabase;
use chalk_solve::{Guidance, RustIrDatabase, Solution, Solver};
use std::io::{Read, Write};
use std::sync::Arc;
use vh::batch::{guarded, install_quiet_panic_hook};
use vh::sexp::{parse, Sexp};

// ---------------------------------------------------------------------------------------
// minimal libc surface (std already links libc; no crate needed)
// ---------------------------------------------------------------------------------------
#[repr(C)]
struct RLimit { cur: u64, max: u64 }
extern "C" {
    fn fork() -> i32;
    fn pipe(fds: *mut i32) -> i32;
    fn close(fd: i32) -> i32;
    fn read(fd: i32, buf: *mut u8, n: usize) -> isize;
    fn write(fd: i32, buf: *const u8, n: usize) -> isize;
    fn waitpid(pid: i32, status: *mut i32, options: i32) -> i32;
    fn setrlimit(resource: i32, rlim: *const RLimit) -> i32;
    fn _exit(code: i32) -> !;
    fn clock_gettime(clk: i32, ts: *mut [i64; 2]) -> i32;
}
const RLIMIT_CPU: i32 = 0;
const RLIMIT_AS: i32 = 9;
const CLOCK_PROCESS_CPUTIME_ID: i32 = 2;

fn cpu_seconds_used() -> u64 {
    let mut ts = [0i64; 2];
    unsafe { clock_gettime(CLOCK_PROCESS_CPUTIME_ID, &mut ts) };
    ts[0] as u64
}
fn set_cpu_limit(secs_from_now: u64) {
    let l = RLimit { cur: cpu_seconds_used() + secs_from_now, max: u64::MAX };
    unsafe { setrlimit(RLIMIT_CPU, &l) };
}

// ---------------------------------------------------------------------------------------
// configuration
// ---------------------------------------------------------------------------------------
#[derive(Clone, Debug)]
enum Mode { Fresh, History }

#[derive(Clone)]
struct Cfg { solver: SolverChoice, mode: Mode, checked: bool, dump: bool, cpu: u64, stack_mb: usize, mem_mb: u64 }

fn parse_solver(s: &Sexp) -> Result<SolverChoice, String> {
    let a = s.args();
    match s.head() {
        Some("Slg") => Ok(SolverChoice::slg_default()),
        Some("SlgWith") => Ok(SolverChoice::slg(a[0].as_num()? as usize, None)),
        Some("Rec") => Ok(SolverChoice::recursive_default()),
        Some("RecWith") => Ok(SolverChoice::Recursive {
            overflow_depth: a[0].as_num()? as usize,
            caching_enabled: a[1].as_bool()?,
            max_size: a[2].as_num()? as usize,
        }),
        _ => Err(format!("bad solver {}", s)),
    }
}

fn parse_mode(s: &Sexp) -> Result<Mode, String> {
    match s.head() {
        Some("Fresh") => Ok(Mode::Fresh),
        Some("History") => Ok(Mode::History),
        _ => Err(format!("bad mode {}", s)),
    }
}

// ---------------------------------------------------------------------------------------
// chalk_ir -> S-expression (ids mapped back to names)
// ---------------------------------------------------------------------------------------
struct Names<'a> { p: &'a Program, umap: Option<&'a UniverseMap> }

fn app(label: String, args: Vec<Sexp>) -> Sexp { Sexp::App("App".into(), vec![Sexp::Str(label), Sexp::List(args)]) }

impl<'a> Names<'a> {
    fn adt(&self, id: AdtId<ChalkIr>) -> String { self.p.adt_kinds.get(&id).map(|k| k.name.to_string()).unwrap_or(format!("{:?}", id)) }
    fn tr(&self, id: TraitId<ChalkIr>) -> String { self.p.trait_kinds.get(&id).map(|k| k.name.to_string()).unwrap_or(format!("{:?}", id)) }
    fn universe(&self, ui: UniverseIndex) -> u64 {
        match self.umap { Some(m) => m.map_universe_from_canonical(ui).counter as u64, None => ui.counter as u64 }
    }
    fn bound(&self, bv: BoundVar, depth: u32) -> Sexp {
        let d = bv.debruijn.depth();
        if d >= depth {
            if d == depth { Sexp::App("BV".into(), vec![Sexp::Num(bv.index as u64)]) }
            else { Sexp::App("OBV".into(), vec![Sexp::Num((d - depth) as u64), Sexp::Num(bv.index as u64)]) }
        } else {
            Sexp::App("IBV".into(), vec![Sexp::Num(d as u64), Sexp::Num(bv.index as u64)])
        }
    }
    fn ph(&self, p: PlaceholderIndex) -> Sexp {
        Sexp::App("Ph".into(), vec![Sexp::Num(self.universe(p.ui)), Sexp::Num(p.idx as u64)])
    }
    fn subst(&self, s: &Substitution<ChalkIr>, depth: u32) -> Vec<Sexp> {
        s.iter(ChalkIr).map(|g| self.garg(g, depth)).collect()
    }
    fn garg(&self, g: &GenericArg<ChalkIr>, depth: u32) -> Sexp {
        match g.data(ChalkIr) {
            GenericArgData::Ty(t) => self.ty(t, depth),
            GenericArgData::Lifetime(l) => self.lt(l, depth),
            GenericArgData::Const(c) => self.cst(c, depth),
        }
    }
    /// lifetimes are wrapped in `(Lt ..)` so that consumers can ignore them (the properties do
    /// not compare lifetime constraints, and lifetime values are entangled with them)
    fn lt(&self, l: &Lifetime<ChalkIr>, depth: u32) -> Sexp {
        Sexp::App("Lt".into(), vec![self.lt_inner(l, depth)])
    }
    fn lt_inner(&self, l: &Lifetime<ChalkIr>, depth: u32) -> Sexp {
        match l.data(ChalkIr) {
            LifetimeData::BoundVar(bv) => self.bound(*bv, depth),
            LifetimeData::InferenceVar(v) => app(format!("'?{}", v.index()), vec![]),
            LifetimeData::Placeholder(p) => self.ph(*p),
            LifetimeData::Static => app("'static".into(), vec![]),
            LifetimeData::Erased => app("'erased".into(), vec![]),
            LifetimeData::Error => app("'error".into(), vec![]),
            LifetimeData::Phantom(..) => unreachable!(),
        }
    }
    fn cst(&self, c: &Const<ChalkIr>, depth: u32) -> Sexp {
        let d = c.data(ChalkIr);
        match &d.value {
            ConstValue::BoundVar(bv) => self.bound(*bv, depth),
            ConstValue::InferenceVar(v) => app(format!("const?{}", v.index()), vec![]),
            ConstValue::Placeholder(p) => self.ph(*p),
            ConstValue::Concrete(cc) => app(format!("const:{:?}", cc.interned), vec![]),
        }
    }
    fn ty(&self, t: &Ty<ChalkIr>, depth: u32) -> Sexp {
        match t.kind(ChalkIr) {
            TyKind::Adt(id, s) => app(format!("adt:{}", self.adt(*id)), self.subst(s, depth)),
            TyKind::AssociatedType(id, s) => app(format!("assoc:{:?}", id), self.subst(s, depth)),
            TyKind::Scalar(sc) => app(format!("scalar:{:?}", sc), vec![]),
            TyKind::Tuple(n, s) => app(format!("tuple:{}", n), self.subst(s, depth)),
            TyKind::Array(t, c) => app("array".into(), vec![self.ty(t, depth), self.cst(c, depth)]),
            TyKind::Slice(t) => app("slice".into(), vec![self.ty(t, depth)]),
            TyKind::Raw(m, t) => app(format!("raw:{:?}", m), vec![self.ty(t, depth)]),
            TyKind::Ref(m, l, t) => app(format!("ref:{:?}", m), vec![self.lt(l, depth), self.ty(t, depth)]),
            TyKind::OpaqueType(id, s) => app(format!("opaque:{:?}", id), self.subst(s, depth)),
            TyKind::FnDef(id, s) => app(format!("fndef:{:?}", id), self.subst(s, depth)),
            TyKind::Str => app("str".into(), vec![]),
            TyKind::Never => app("never".into(), vec![]),
            TyKind::Closure(id, s) => app(format!("closure:{:?}", id), self.subst(s, depth)),
            TyKind::Coroutine(id, s) => app(format!("coroutine:{:?}", id), self.subst(s, depth)),
            TyKind::CoroutineWitness(id, s) => app(format!("coroutine_witness:{:?}", id), self.subst(s, depth)),
            TyKind::Foreign(id) => app(format!("foreign:{:?}", id), vec![]),
            TyKind::Error => app("error".into(), vec![]),
            TyKind::Placeholder(p) => self.ph(*p),
            // binder-carrying types are kept opaque: their Debug text is the label
            TyKind::Dyn(d) => app(format!("dyn:{:?}", d), vec![]),
            TyKind::Function(f) => app(format!("fnptr:{:?}", f), vec![]),
            TyKind::Alias(AliasTy::Projection(p)) => app(format!("proj:{:?}", p.associated_ty_id), self.subst(&p.substitution, depth)),
            TyKind::Alias(AliasTy::Opaque(o)) => app(format!("opaque_alias:{:?}", o.opaque_ty_id), self.subst(&o.substitution, depth)),
            TyKind::BoundVar(bv) => self.bound(*bv, depth),
            TyKind::InferenceVar(v, k) => app(format!("infer:{}:{:?}", v.index(), k), vec![]),
        }
    }
    fn trait_ref(&self, tr: &TraitRef<ChalkIr>, depth: u32) -> Vec<Sexp> {
        vec![Sexp::Str(self.tr(tr.trait_id)), Sexp::List(self.subst(&tr.substitution, depth))]
    }
    fn qwc(&self, q: &QuantifiedWhereClause<ChalkIr>, depth: u32) -> Sexp {
        let n = q.binders.len(ChalkIr);
        let inner = match q.skip_binders() {
            WhereClause::Implemented(tr) => Sexp::App("Implemented".into(), self.trait_ref(tr, depth + 1)),
            o => Sexp::App("OtherWc".into(), vec![Sexp::Str(format!("{:?}", o))]),
        };
        if n == 0 { inner } else { Sexp::App("ForallWc".into(), vec![Sexp::Num(n as u64), inner]) }
    }
}

fn dump_program(p: &Program) -> Sexp {
    let nm = Names { p, umap: None };
    let mut adts = vec![];
    for (id, d) in &p.adt_data {
        let b = d.binders.skip_binders();
        let variants: Vec<Sexp> = b.variants.iter().map(|v| Sexp::List(v.fields.iter().map(|f| nm.ty(f, 0)).collect())).collect();
        adts.push(Sexp::App("Adt".into(), vec![
            Sexp::Str(nm.adt(*id)), Sexp::Num(d.binders.len(ChalkIr) as u64), Sexp::Str(format!("{:?}", d.kind)),
            Sexp::List(variants), Sexp::List(b.where_clauses.iter().map(|w| nm.qwc(w, 0)).collect())]));
    }
    let mut traits = vec![];
    for (id, d) in &p.trait_data {
        let mut flags = vec![];
        if d.flags.auto { flags.push(Sexp::atom("auto")); }
        if d.flags.coinductive { flags.push(Sexp::atom("coinductive")); }
        if d.flags.marker { flags.push(Sexp::atom("marker")); }
        if d.flags.upstream { flags.push(Sexp::atom("upstream")); }
        if d.flags.fundamental { flags.push(Sexp::atom("fundamental")); }
        if d.flags.non_enumerable { flags.push(Sexp::atom("non_enumerable")); }
        traits.push(Sexp::App("Trait".into(), vec![
            Sexp::Str(nm.tr(*id)), Sexp::Num(d.binders.len(ChalkIr) as u64), Sexp::List(flags),
            Sexp::List(d.binders.skip_binders().where_clauses.iter().map(|w| nm.qwc(w, 0)).collect()),
            Sexp::Str(d.well_known.map(|w| format!("{:?}", w)).unwrap_or_default()),
            Sexp::Num(d.associated_ty_ids.len() as u64)]));
    }
    let mut impls = vec![];
    for (_id, d) in &p.impl_data {
        let b = d.binders.skip_binders();
        impls.push(Sexp::App("Impl".into(), vec![
            Sexp::Num(d.binders.len(ChalkIr) as u64),
            Sexp::boolean(matches!(d.polarity, Polarity::Positive)),
            Sexp::App("TraitRef".into(), nm.trait_ref(&b.trait_ref, 0)),
            Sexp::List(b.where_clauses.iter().map(|w| nm.qwc(w, 0)).collect()),
            Sexp::Num(d.associated_ty_value_ids.len() as u64)]));
    }
    let other = p.fn_def_data.len() + p.closure_ids.len() + p.coroutine_ids.len() + p.opaque_ty_ids.len() + p.foreign_ty_ids.len();
    Sexp::App("Program".into(), vec![Sexp::List(adts), Sexp::List(traits), Sexp::List(impls),
        Sexp::App("Extra".into(), vec![Sexp::Num(p.custom_clauses.len() as u64), Sexp::Num(p.associated_ty_data.len() as u64), Sexp::Num(other as u64)])])
}

// ---------------------------------------------------------------------------------------
// goals
// ---------------------------------------------------------------------------------------
struct Peeled {
    goal: UCanonical<InEnvironment<Goal<ChalkIr>>>,
    universes: UniverseMap,
    prefix: Vec<Sexp>,
    /// for each user-level existential variable (peel order): its canonical index, if it occurs
    exist_to_canon: Vec<Option<usize>>,
}

/// `GoalExt::into_peeled_goal`, re-done with the public `InferenceTable` API so that we learn
/// which canonical variable each user-written `exists` variable became (canonicalisation
/// renumbers by first occurrence).
fn peel(goal: Goal<ChalkIr>) -> Peeled {
    let interner = ChalkIr;
    let mut infer: InferenceTable<ChalkIr> = InferenceTable::new();
    let mut prefix = vec![];
    let mut n_exists = 0usize;
    let mut n_universes = 0u64;
    let mut env_goal = InEnvironment::new(&Environment::new(interner), goal);
    let peeled = loop {
        let InEnvironment { environment, goal } = env_goal;
        match goal.data(interner) {
            GoalData::Quantified(QuantifierKind::ForAll, sub) => {
                let n = sub.binders.len(interner);
                if n > 0 { n_universes += 1; }
                for i in 0..n { prefix.push(Sexp::App("A".into(), vec![Sexp::Num(n_universes), Sexp::Num(i as u64)])); }
                let sub = infer.instantiate_binders_universally(interner, sub.clone());
                env_goal = InEnvironment::new(&environment, sub);
            }
            GoalData::Quantified(QuantifierKind::Exists, sub) => {
                let n = sub.binders.len(interner);
                for _ in 0..n { prefix.push(Sexp::atom("E")); }
                n_exists += n;
                let sub = infer.instantiate_binders_existentially(interner, sub.clone());
                env_goal = InEnvironment::new(&environment, sub);
            }
            GoalData::Implies(wc, sub) => {
                let new_env = environment.add_clauses(interner, wc.iter(interner).cloned());
                env_goal = InEnvironment::new(&new_env, Goal::clone(sub));
            }
            _ => break InEnvironment::new(&environment, goal),
        }
    };
    let canon = infer.canonicalize(interner, peeled);
    let mut exist_to_canon = vec![None; n_exists];
    for (k, v) in canon.free_vars.iter().enumerate() {
        let iv: InferenceVar = (*v.skip_kind()).into();
        let j = iv.index() as usize;
        assert!(j < n_exists, "inference variable numbering is not sequential");
        exist_to_canon[j] = Some(k);
    }
    let u = InferenceTable::u_canonicalize(interner, &canon.quantified);
    Peeled { goal: u.quantified, universes: u.universes, prefix, exist_to_canon }
}

fn subst_sexp(p: &Program, pe: &Peeled, binders: &CanonicalVarKinds<ChalkIr>, subst: &Substitution<ChalkIr>) -> (Sexp, Sexp) {
    let nm = Names { p, umap: Some(&pe.universes) };
    let us: Vec<Sexp> = binders.iter(ChalkIr).map(|b| Sexp::Num(nm.universe(*b.skip_kind()))).collect();
    let all: Vec<Sexp> = nm.subst(subst, 0);
    let tys: Vec<Sexp> = pe.exist_to_canon.iter().map(|k| match k {
        Some(k) if *k < all.len() => all[*k].clone(),
        _ => Sexp::atom("Free"),
    }).collect();
    (Sexp::List(us), Sexp::List(tys))
}

fn solution_sexp(p: &Program, pe: &Peeled, sol: Option<Solution<ChalkIr>>) -> Sexp {
    match sol {
        None => Sexp::atom("NoSolution"),
        Some(Solution::Unique(c)) => {
            let (us, tys) = subst_sexp(p, pe, &c.binders, &c.value.subst);
            Sexp::App("Unique".into(), vec![us, tys, Sexp::boolean(!c.value.constraints.is_empty(ChalkIr))])
        }
        Some(Solution::Ambig(Guidance::Definite(c))) => {
            let (us, tys) = subst_sexp(p, pe, &c.binders, &c.value);
            Sexp::App("AmbigDefinite".into(), vec![us, tys])
        }
        Some(Solution::Ambig(Guidance::Suggested(c))) => {
            let (us, tys) = subst_sexp(p, pe, &c.binders, &c.value);
            Sexp::App("AmbigSuggested".into(), vec![us, tys])
        }
        Some(Solution::Ambig(Guidance::Unknown)) => Sexp::atom("AmbigUnknown"),
    }
}

// ---------------------------------------------------------------------------------------
// child processes
// ---------------------------------------------------------------------------------------

/// Runs `f` in a forked child on a thread with `stack_mb` of stack; `f` streams result lines
/// through `emit`.  Returns the lines received and how the child ended.
enum End { Clean, Timeout, Abort(String) }

fn in_child(cfg: &Cfg, f: impl FnOnce(&mut dyn FnMut(String))) -> (Vec<String>, End) {
    let mut fds = [0i32; 2];
    if unsafe { pipe(fds.as_mut_ptr()) } != 0 { return (vec![], End::Abort("pipe failed".into())); }
    let _ = std::io::stdout().flush();
    let pid = unsafe { fork() };
    if pid < 0 { return (vec![], End::Abort("fork failed".into())); }
    if pid == 0 {
        unsafe { close(fds[0]) };
        let wfd = fds[1];
        let lim = RLimit { cur: cfg.mem_mb * 1024 * 1024, max: cfg.mem_mb * 1024 * 1024 };
        unsafe { setrlimit(RLIMIT_AS, &lim) };
        set_cpu_limit(cfg.cpu);
        let stack = cfg.stack_mb * 1024 * 1024;
        // the child is single-threaded: moving the (non-Send) database borrow to the one
        // worker thread, which exists only to get a stack of the requested size, is safe.
        struct AssertSend<T>(T);
        unsafe impl<T> Send for AssertSend<T> {}
        let f = AssertSend(f);
        let r = std::thread::scope(|s| {
            std::thread::Builder::new().stack_size(stack).spawn_scoped(s, move || {
                let f = f;
                let f = f.0;
                install_quiet_panic_hook();
                let mut emit = |line: String| {
                    let b = format!("{}\n", line).into_bytes();
                    let mut off = 0;
                    while off < b.len() {
                        let n = unsafe { write(wfd, b[off..].as_ptr(), b.len() - off) };
                        if n <= 0 { break; }
                        off += n as usize;
                    }
                };
                f(&mut emit);
            }).map(|h| h.join().is_ok()).unwrap_or(false)
        });
        unsafe { _exit(if r { 0 } else { 3 }) };
    }
    unsafe { close(fds[1]) };
    let mut data = Vec::new();
    let mut buf = [0u8; 65536];
    loop {
        let n = unsafe { read(fds[0], buf.as_mut_ptr(), buf.len()) };
        if n <= 0 { break; }
        data.extend_from_slice(&buf[..n as usize]);
    }
    unsafe { close(fds[0]) };
    let mut status = 0i32;
    unsafe { waitpid(pid, &mut status, 0) };
    let text = String::from_utf8_lossy(&data).to_string();
    let complete_upto = text.rfind('\n').map(|i| i + 1).unwrap_or(0);
    let lines: Vec<String> = text[..complete_upto].lines().map(|s| s.to_string()).collect();
    let sig = status & 0x7f;
    let end = if sig == 0 {
        let code = (status >> 8) & 0xff;
        if code == 0 { End::Clean } else { End::Abort(format!("exit code {}", code)) }
    } else if sig == 24 || sig == 9 {
        End::Timeout
    } else {
        End::Abort(format!("signal {}", sig))
    };
    (lines, end)
}

fn end_sexp(e: &End) -> Sexp {
    match e {
        End::Clean => Sexp::App("Abort".into(), vec![Sexp::Str("child ended without a result".into())]),
        End::Timeout => Sexp::atom("Timeout"),
        End::Abort(s) => Sexp::App("Abort".into(), vec![Sexp::Str(s.clone())]),
    }
}


fn solve_goal(db: &dyn RustIrDatabase<ChalkIr>, program: &Arc<Program>, solver: &mut Box<dyn Solver<ChalkIr>>, text: &str) -> Sexp {
    let lowered = match chalk_parse::parse_goal(text) {
        Err(e) => return Sexp::App("GoalError".into(), vec![Sexp::Str(format!("parse: {}", e))]),
        Ok(g) => match lower_goal(&*g, &**program) {
            Err(e) => return Sexp::App("GoalError".into(), vec![Sexp::Str(format!("lower: {}", e))]),
            Ok(g) => g,
        },
    };
    let pe = peel(lowered);
    let ans = match guarded(|| solution_sexp(program, &pe, solver.solve(db, &pe.goal))) {
        Ok(s) => s,
        Err(msg) => Sexp::App("Panic".into(), vec![Sexp::Str(msg)]),
    };
    Sexp::App("R".into(), vec![Sexp::List(pe.prefix.clone()), ans])
}

/// the goals in order on `db`, with a fresh solver per goal or one solver for the sequence
fn solve_seq(cfg: &Cfg, choice: SolverChoice, db: &dyn RustIrDatabase<ChalkIr>, program: &Arc<Program>, goals: &[String]) -> Sexp {
    let mut shared = choice.into_solver();
    let mut out = vec![];
    for g in goals {
        set_cpu_limit(cfg.cpu);
        if matches!(cfg.mode, Mode::History) {
            out.push(solve_goal(db, program, &mut shared, g));
        } else {
            let mut solver = choice.into_solver();
            out.push(solve_goal(db, program, &mut solver, g));
        }
    }
    Sexp::List(out)
}

fn load(text: &str, choice: SolverChoice) -> Result<(ChalkDatabase, Arc<Program>), String> {
    let db = ChalkDatabase::with(text, choice);
    match db.program_ir() {
        Ok(p) => Ok((db, p)),
        Err(e) => Err(format!("{}", e)),
    }
}

fn run_case(case: &Sexp) -> Result<Sexp, String> {
    if case.head() != Some("Case") || case.args().len() < 4 { return Err("expected (Case prog goals solver mode opts)".into()); }
    let a = case.args();
    let text = a[0].as_str()?.to_string();
    let goals: Vec<String> = a[1].as_list()?.iter().map(|g| g.as_str().map(|s| s.to_string())).collect::<Result<_, _>>()?;
    let mut cfg = Cfg { solver: parse_solver(&a[2])?, mode: parse_mode(&a[3])?, checked: false, dump: false, cpu: 10, stack_mb: 64, mem_mb: 4096 };
    if a.len() > 4 {
        for o in a[4].as_list()? {
            match o.head() {
                Some("Cpu") => cfg.cpu = o.args()[0].as_num()?,
                Some("StackMb") => cfg.stack_mb = o.args()[0].as_num()? as usize,
                Some("MemMb") => cfg.mem_mb = o.args()[0].as_num()?,
                _ => return Err(format!("bad option {}", o)),
            }
        }
    }
    let _ = (cfg.checked, cfg.dump);
    let slg = SolverChoice::slg_default();
    let rec = SolverChoice::recursive_default();
    let (lines, end) = in_child(&cfg, |emit| {
        let (db, p) = match guarded(|| load(&text, cfg.solver)) {
            Ok(Ok(x)) => x,
            Ok(Err(e)) => { emit(Sexp::App("ProgramError".into(), vec![Sexp::Str(e)]).to_string()); return; }
            Err(m) => { emit(Sexp::App("ProgramError".into(), vec![Sexp::Str(format!("panic: {}", m))]).to_string()); return; }
        };
        // 1. the goal sequence through the recording wrapper; 2. the reference answers on the original
        let (printed, dump0, through, o_slg, o_rec) = tls::set_current_program(&p, || {
            let wrapped = LoggingRustIrDatabase::<ChalkIr, Program, _>::new(p.clone());
            let through = solve_seq(&cfg, cfg.solver, &wrapped, &p, &goals);
            let printed = match guarded(|| wrapped.to_string()) { Ok(s) => s, Err(m) => format!("<<writer panicked: {}>>", m) };
            let dump0 = guarded(|| dump_program(&p)).unwrap_or_else(|m| Sexp::App("DumpPanic".into(), vec![Sexp::Str(m)]));
            let o_slg = solve_seq(&cfg, slg, &db, &p, &goals);
            let o_rec = solve_seq(&cfg, rec, &db, &p, &goals);
            (printed, dump0, through, o_slg, o_rec)
        });
        // 3. the printed program, parsed and lowered by the real front end
        let reparsed = match guarded(|| load(&printed, cfg.solver)) {
            Ok(Ok((db2, p2))) => tls::set_current_program(&p2, || {
                let dump = guarded(|| dump_program(&p2)).unwrap_or_else(|m| Sexp::App("DumpPanic".into(), vec![Sexp::Str(m)]));
                let n_slg = solve_seq(&cfg, slg, &db2, &p2, &goals);
                let n_rec = solve_seq(&cfg, rec, &db2, &p2, &goals);
                Sexp::App("Reparsed".into(), vec![dump, n_slg, n_rec])
            }),
            Ok(Err(e)) => Sexp::App("ReparseError".into(), vec![Sexp::Str(e)]),
            Err(m) => Sexp::App("ReparseError".into(), vec![Sexp::Str(format!("panic: {}", m))]),
        };
        emit(Sexp::App("Result".into(), vec![Sexp::Str(printed), dump0, through, o_slg, o_rec, reparsed]).to_string());
    });
    match lines.first() {
        Some(l) => parse(l),
        None => Ok(end_sexp(&end)),
    }
}

fn main() {
    install_quiet_panic_hook();
    let mut input = String::new();
    let _ = std::io::stdin().lock().read_to_string(&mut input);
    for line in input.lines() {
        if line.trim().is_empty() { continue; }
        let out = match parse(line) {
            Err(e) => Sexp::App("BadInput".into(), vec![Sexp::Str(e)]),
            Ok(case) => match guarded(|| run_case(&case)) {
                Ok(Ok(r)) => r,
                Ok(Err(e)) => Sexp::App("BadInput".into(), vec![Sexp::Str(e)]),
                Err(p) => Sexp::App("Panic".into(), vec![Sexp::Str(p)]),
            },
        };
        let stdout = std::io::stdout();
        let mut o = stdout.lock();
        let _ = writeln!(o, "{}", out);
        let _ = o.flush();
    }
}
