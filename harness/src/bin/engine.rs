//! Drives the REAL generic fixed-point engine `RecursiveContext<K, V>` of chalk-recursive on
//! ground and-or graphs through hook H3 (`chalk_recursive::verif`).
//!
//! case:   (Case [(Node <coind> [(Cl [<subgoal>..] <amb>) ..]) ..] <overflow> <caching>
//!               [<stop_at>..] [<panic_at>..] [<root goal>..])
//! result: [(Obs <outcome> [<cache entry>..] <stack> <graph> <work> <iters> <ticks> <sci>) ..]
//!         one per root call; outcome = (OVal Yes|No|Amb) | (OPanic "message")
use chalk_recursive::verif::{self, Clause, Driver, Node, Val};
use vh::batch::{guarded, run_batch};
use vh::sexp::Sexp;

fn val(v: Val) -> Sexp {
    Sexp::atom(match v {
        Val::Yes => "Yes",
        Val::No => "No",
        Val::Amb => "Amb",
    })
}

fn nums(s: &Sexp) -> Result<Vec<usize>, String> {
    s.as_list()?.iter().map(|x| x.as_num().map(|n| n as usize)).collect()
}

fn parse_graph(s: &Sexp) -> Result<Vec<Node>, String> {
    let mut out = vec![];
    for n in s.as_list()? {
        if n.head() != Some("Node") || n.args().len() != 2 {
            return Err(format!("bad node {}", n));
        }
        let mut clauses = vec![];
        for c in n.args()[1].as_list()? {
            if c.head() != Some("Cl") || c.args().len() != 2 {
                return Err(format!("bad clause {}", c));
            }
            clauses.push(Clause { subgoals: nums(&c.args()[0])?, ambiguous: c.args()[1].as_bool()? });
        }
        out.push(Node { coinductive: n.args()[0].as_bool()?, clauses });
    }
    let n = out.len();
    for nd in &out {
        for c in &nd.clauses {
            if c.subgoals.iter().any(|&g| g >= n) {
                return Err("subgoal out of range".into());
            }
        }
    }
    Ok(out)
}

fn main() {
    run_batch(|case| {
        if case.head() != Some("Case") || case.args().len() != 6 {
            return Err(format!("bad case {}", case));
        }
        let a = case.args();
        let graph = parse_graph(&a[0])?;
        let n = graph.len();
        let overflow = a[1].as_num()? as usize;
        let caching = a[2].as_bool()?;
        let stop_at = nums(&a[3])?;
        let panic_at = nums(&a[4])?;
        let history = nums(&a[5])?;
        if history.iter().any(|&g| g >= n) {
            return Err("root goal out of range".into());
        }
        let mut driver = Driver::new(graph, overflow, caching, stop_at, panic_at);
        verif::reset_work();
        let mut out = vec![];
        for g in history {
            let outcome = match guarded(|| driver.solve_root(g)) {
                Ok(v) => Sexp::app("OVal", vec![val(v)]),
                Err(msg) => Sexp::app("OPanic", vec![Sexp::string(&msg)]),
            };
            let d = driver.dump();
            let cache = d
                .cache
                .iter()
                .map(|e| match e {
                    Some(v) => Sexp::app("Some", vec![val(*v)]),
                    None => Sexp::atom("None"),
                })
                .collect();
            out.push(Sexp::app(
                "Obs",
                vec![
                    outcome,
                    Sexp::list(cache),
                    Sexp::num(d.stack_len as u64),
                    Sexp::num(d.search_graph_len as u64),
                    Sexp::num(verif::work()),
                    Sexp::num(d.iterations as u64),
                    Sexp::num(d.ticks as u64),
                    Sexp::num(d.continue_calls as u64),
                ],
            ));
        }
        Ok(Sexp::list(out))
    });
}
