//! Ir family: the real chalk-ir operations on terms given in the shared syntax.
//!   (Roundtrip t) (Flags ty) (ShiftIn n t) (ShiftOut n t) (Subst [params] t)
//!   (BindersSubst [kinds] t [params]) (IdentitySubst [kinds] t) (FoldId t) (CouldMatch a b)
use chalk_integration::interner::ChalkIr;
use chalk_ir::could_match::CouldMatch;
use chalk_ir::fold::shift::Shift;
use chalk_ir::fold::{FallibleTypeFolder, Subst, TypeFoldable, TypeFolder};
use chalk_ir::interner::{HasInterner, Interner};
use chalk_ir::*;
use vh::ir::*;
use vh::sexp::Sexp;

const I: ChalkIr = ChalkIr;

macro_rules! map_any {
    ($a:expr, |$t:ident| $e:expr) => {
        match $a {
            AnyTerm::Ty($t) => AnyTerm::Ty($e),
            AnyTerm::Lifetime($t) => AnyTerm::Lifetime($e),
            AnyTerm::Const($t) => AnyTerm::Const($e),
            AnyTerm::Goal($t) => AnyTerm::Goal($e),
            AnyTerm::Clause($t) => AnyTerm::Clause($e),
            AnyTerm::DomainGoal($t) => AnyTerm::DomainGoal($e),
            AnyTerm::WhereClause($t) => AnyTerm::WhereClause($e),
            AnyTerm::Qwc($t) => AnyTerm::Qwc($e),
            AnyTerm::TraitRef($t) => AnyTerm::TraitRef($e),
        }
    };
}

macro_rules! try_map_any {
    ($a:expr, |$t:ident| $e:expr) => {
        match $a {
            AnyTerm::Ty($t) => $e.map(AnyTerm::Ty),
            AnyTerm::Lifetime($t) => $e.map(AnyTerm::Lifetime),
            AnyTerm::Const($t) => $e.map(AnyTerm::Const),
            AnyTerm::Goal($t) => $e.map(AnyTerm::Goal),
            AnyTerm::Clause($t) => $e.map(AnyTerm::Clause),
            AnyTerm::DomainGoal($t) => $e.map(AnyTerm::DomainGoal),
            AnyTerm::WhereClause($t) => $e.map(AnyTerm::WhereClause),
            AnyTerm::Qwc($t) => $e.map(AnyTerm::Qwc),
            AnyTerm::TraitRef($t) => $e.map(AnyTerm::TraitRef),
        }
    };
}

/// A folder that overrides nothing: every default method rebuilds the term unchanged.
struct IdFolder;
impl FallibleTypeFolder<ChalkIr> for IdFolder {
    type Error = std::convert::Infallible;
    fn as_dyn(&mut self) -> &mut dyn FallibleTypeFolder<ChalkIr, Error = Self::Error> { self }
    fn interner(&self) -> ChalkIr { ChalkIr }
}

/// the same "changes nothing" folder through the infallible trait's defaults
#[derive(chalk_derive::FallibleTypeFolder)]
struct IdFolderT<I: Interner> { interner: I }
impl<I: Interner> TypeFolder<I> for IdFolderT<I> {
    fn as_dyn(&mut self) -> &mut dyn TypeFolder<I> { self }
    fn interner(&self) -> I { self.interner }
}

#[derive(Debug)]
struct Variances8;
impl UnificationDatabase<ChalkIr> for Variances8 {
    fn fn_def_variance(&self, _: FnDefId<ChalkIr>) -> Variances<ChalkIr> { Variances::from_iter(I, std::iter::repeat(Variance::Invariant).take(8)) }
    fn adt_variance(&self, _: AdtId<ChalkIr>) -> Variances<ChalkIr> { Variances::from_iter(I, std::iter::repeat(Variance::Invariant).take(8)) }
}

fn params(s: &Sexp) -> Result<Vec<GenericArg<ChalkIr>>, String> { s.as_list()?.iter().map(to_garg).collect() }

fn binders_subst<T: TypeFoldable<ChalkIr> + HasInterner<Interner = ChalkIr>>(k: VariableKinds<ChalkIr>, t: T, p: &[GenericArg<ChalkIr>]) -> T {
    Binders::new(k, t).substitute(I, p)
}

fn identity_subst<T: TypeFoldable<ChalkIr> + HasInterner<Interner = ChalkIr> + Clone>(k: VariableKinds<ChalkIr>, t: T) -> T {
    let b = Binders::new(k, t);
    let s = b.identity_substitution(I);
    b.substitute(I, &s)
}

fn could_match(a: &AnyTerm, b: &AnyTerm) -> Result<bool, String> {
    let db = Variances8;
    Ok(match (a, b) {
        (AnyTerm::Ty(x), AnyTerm::Ty(y)) => x.could_match(I, &db, y),
        (AnyTerm::Lifetime(x), AnyTerm::Lifetime(y)) => x.could_match(I, &db, y),
        (AnyTerm::Const(x), AnyTerm::Const(y)) => x.could_match(I, &db, y),
        (AnyTerm::DomainGoal(x), AnyTerm::DomainGoal(y)) => x.could_match(I, &db, y),
        (AnyTerm::WhereClause(x), AnyTerm::WhereClause(y)) => x.could_match(I, &db, y),
        (AnyTerm::TraitRef(x), AnyTerm::TraitRef(y)) => x.could_match(I, &db, y),
        (AnyTerm::Clause(x), AnyTerm::DomainGoal(y)) => x.could_match(I, &db, y),
        (AnyTerm::Goal(x), AnyTerm::Goal(y)) => x.could_match(I, &db, y),
        _ => return Err("CouldMatch: unsupported pair of categories".into()),
    })
}

fn kinds6() -> VariableKinds<ChalkIr> {
    VariableKinds::from_iter(I, (0..6).map(|i| match i % 3 {
        0 => VariableKind::Ty(TyVariableKind::General),
        1 => VariableKind::Lifetime,
        _ => VariableKind::Const(usize_ty()),
    }))
}

/// Does real unification (Invariant) succeed once the level-0 bound variables of each side are
/// replaced by fresh inference variables (kinds by index: i%3 = 0 type, 1 lifetime, 2 const)?
/// Inference variables mentioned in the inputs must be < 8.
fn unifies(a: AnyTerm, b: AnyTerm) -> Result<bool, String> {
    use chalk_solve::infer::InferenceTable;
    let mut table: InferenceTable<ChalkIr> = InferenceTable::new();
    let mut top = UniverseIndex::ROOT;
    for _ in 0..3 { top = table.new_universe(); }
    for _ in 0..8 { table.new_variable(top); }
    let env = Environment::new(I);
    let db = Variances8;
    macro_rules! go {
        ($x:expr, $y:expr) => {{
            let x = table.instantiate_binders_existentially(I, Binders::new(kinds6(), $x));
            let y = table.instantiate_binders_existentially(I, Binders::new(kinds6(), $y));
            table.relate(I, &db, &env, Variance::Invariant, &x, &y).is_ok()
        }};
    }
    Ok(match (a, b) {
        (AnyTerm::Ty(x), AnyTerm::Ty(y)) => go!(x, y),
        (AnyTerm::Lifetime(x), AnyTerm::Lifetime(y)) => go!(x, y),
        (AnyTerm::Const(x), AnyTerm::Const(y)) => go!(x, y),
        (AnyTerm::DomainGoal(x), AnyTerm::DomainGoal(y)) => go!(x, y),
        (AnyTerm::WhereClause(x), AnyTerm::WhereClause(y)) => go!(x, y),
        (AnyTerm::TraitRef(x), AnyTerm::TraitRef(y)) => go!(x, y),
        (AnyTerm::Goal(x), AnyTerm::Goal(y)) => go!(x, y),
        _ => return Err("Unifies: unsupported pair of categories".into()),
    })
}

fn main() {
    vh::batch::run_batch(|c| {
        let a = c.args();
        match c.head().unwrap_or("") {
            "Roundtrip" => Ok(any_sx(&to_any(&a[0])?)),
            "Flags" => Ok(Sexp::num(to_ty(&a[0])?.data(I).flags.bits() as u64)),
            "ShiftIn" => {
                let n = DebruijnIndex::new(a[0].as_num()? as u32);
                Ok(any_sx(&map_any!(to_any(&a[1])?, |t| t.shifted_in_from(I, n))))
            }
            "ShiftOut" => {
                let n = DebruijnIndex::new(a[0].as_num()? as u32);
                let r: Result<AnyTerm, NoSolution> = try_map_any!(to_any(&a[1])?, |t| t.shifted_out_to(I, n));
                Ok(match r { Ok(t) => Sexp::app("Some", vec![any_sx(&t)]), Err(_) => Sexp::atom("None") })
            }
            "Subst" => {
                let p = params(&a[0])?;
                Ok(any_sx(&map_any!(to_any(&a[1])?, |t| Subst::apply(I, &p, t))))
            }
            "SubstApply" => {
                let p = Substitution::from_iter(I, params(&a[0])?);
                Ok(any_sx(&map_any!(to_any(&a[1])?, |t| p.apply(t, I))))
            }
            "BindersSubst" => {
                let k = vkinds(&a[0])?;
                let p = params(&a[2])?;
                Ok(any_sx(&map_any!(to_any(&a[1])?, |t| binders_subst(k.clone(), t, &p))))
            }
            "IdentitySubst" => {
                let k = vkinds(&a[0])?;
                Ok(any_sx(&map_any!(to_any(&a[1])?, |t| identity_subst(k.clone(), t))))
            }
            "FoldId" => Ok(any_sx(&map_any!(to_any(&a[0])?, |t| t.try_fold_with(&mut IdFolder, DebruijnIndex::INNERMOST).unwrap()))),
            "FoldIdT" => Ok(any_sx(&map_any!(to_any(&a[0])?, |t| t.fold_with(&mut IdFolderT { interner: ChalkIr }, DebruijnIndex::INNERMOST)))),
            "CouldMatch" => Ok(Sexp::boolean(could_match(&to_any(&a[0])?, &to_any(&a[1])?)?)),
            "CouldMatchSlice" => {
                let (x, y) = (params(&a[0])?, params(&a[1])?);
                Ok(Sexp::boolean(<[GenericArg<ChalkIr>] as CouldMatch<[GenericArg<ChalkIr>]>>::could_match(&x[..], I, &Variances8, &y[..])))
            }
            "Unifies" => Ok(Sexp::boolean(unifies(to_any(&a[0])?, to_any(&a[1])?)?)),
            o => Err(format!("unknown op {}", o)),
        }
    });
}
