//! Text layer harness (C22 writer round trip, C24 parse/lower never panics).
//!   text lower      (L "<pct text>" ["<pct goal>" ...])  -> (R <prog-outcome> [<goal-outcome> ...])
//!   text roundtrip  (RT "<pct text>")                     -> see roundtrip.rs
//!   text tokens     (TK "<pct text>")                     -> see roundtrip.rs
//! Text is percent-encoded (every byte outside [0x20,0x7e] and '%', '"', '\\' as %XX) so that
//! arbitrary byte strings survive the line protocol.
mod lower;
mod roundtrip;

use vh::sexp::Sexp;

pub fn pct_decode(s: &str) -> Result<Vec<u8>, String> {
    let b = s.as_bytes();
    let mut out = Vec::with_capacity(b.len());
    let mut i = 0;
    while i < b.len() {
        if b[i] == b'%' {
            if i + 3 > b.len() { return Err("bad % escape".into()); }
            let h = std::str::from_utf8(&b[i + 1..i + 3]).map_err(|e| e.to_string())?;
            out.push(u8::from_str_radix(h, 16).map_err(|e| e.to_string())?);
            i += 3;
        } else {
            out.push(b[i]);
            i += 1;
        }
    }
    Ok(out)
}

pub fn pct_encode(s: &str) -> String {
    let mut out = String::with_capacity(s.len());
    for &c in s.as_bytes() {
        if c < 0x20 || c > 0x7e || c == b'%' || c == b'"' || c == b'\\' {
            out.push_str(&format!("%{:02X}", c));
        } else {
            out.push(c as char);
        }
    }
    out
}

pub fn enc(s: &str) -> Sexp { Sexp::string(&pct_encode(s)) }

fn main() {
    let cmd = std::env::args().nth(1).unwrap_or_default();
    match cmd.as_str() {
        "lower" => vh::batch::run_batch(|c| lower::run(c)),
        "roundtrip" => vh::batch::run_batch(|c| roundtrip::run_roundtrip(c)),
        "tokens" => vh::batch::run_batch(|c| roundtrip::run_tokens(c)),
        "dump" => vh::batch::run_batch(|c| roundtrip::run_dump(c)),
        other => { eprintln!("unknown sub-command {:?}", other); std::process::exit(2); }
    }
}
