//! `text lower`: parse_program / program_ir (/ checked_program) / parse_goal / lower_goal under
//! catch_unwind.  Outcomes: Ok | NotUtf8 | (ParseError "m") | (LowerError Class "m") |
//! (CheckError "m") | (Panic "m @ file:line").
use crate::{enc, pct_decode};
use chalk_integration::db::ChalkDatabase;
use chalk_integration::lowering::{lower_goal, Lower};
use chalk_integration::query::LoweringDatabase;
use chalk_integration::SolverChoice;
use vh::batch::guarded;
use vh::sexp::Sexp;

fn class_of(e: &chalk_integration::error::RustIrError) -> String {
    let d = format!("{:?}", e);
    d.chars().take_while(|c| c.is_ascii_alphanumeric() || *c == '_').collect()
}

fn panic_out(m: &str) -> Sexp { Sexp::app("Panic", vec![enc(m)]) }

pub fn run(case: &Sexp) -> Result<Sexp, String> {
    if case.head() != Some("L") { return Err("expected (L text [goals] mode)".into()); }
    let a = case.args();
    let text = pct_decode(a.get(0).ok_or("missing text")?.as_str()?)?;
    let goals: Vec<Vec<u8>> = match a.get(1) {
        Some(g) => g.as_list()?.iter().map(|s| pct_decode(s.as_str()?)).collect::<Result<_, _>>()?,
        None => vec![],
    };
    let checked = matches!(a.get(2).and_then(|m| m.head()), Some("checked"));
    let text = match String::from_utf8(text) { Ok(t) => t, Err(_) => return Ok(Sexp::app("R", vec![Sexp::atom("NotUtf8"), Sexp::atom("NotUtf8"), Sexp::list(vec![])])) };

    // 1. direct: parse_program, then Lower (gives the error class)
    let mut program = None;
    let direct = match guarded(|| chalk_parse::parse_program(&text)) {
        Err(p) => panic_out(&p),
        Ok(Err(e)) => Sexp::app("ParseError", vec![enc(&e.to_string())]),
        Ok(Ok(ast)) => match guarded(|| ast.lower()) {
            Err(p) => panic_out(&p),
            Ok(Err(e)) => Sexp::app("LowerError", vec![Sexp::atom(&class_of(&e)), enc(&e.to_string())]),
            Ok(Ok(p)) => { program = Some(p); Sexp::atom("Ok") }
        },
    };
    // 2. the observation point of the property: LoweringDatabase::program_ir
    let via_db = match guarded(|| {
        let db = ChalkDatabase::with(&text, SolverChoice::slg_default());
        let r = db.program_ir().map(|_| ()).map_err(|e| e.to_string());
        let c = if checked && r.is_ok() { Some(db.checked_program().map(|_| ()).map_err(|e| e.to_string())) } else { None };
        (r, c)
    }) {
        Err(p) => panic_out(&p),
        Ok((Err(e), _)) => Sexp::app("Err", vec![enc(&e)]),
        Ok((Ok(()), None)) => Sexp::atom("Ok"),
        Ok((Ok(()), Some(Ok(())))) => Sexp::atom("OkChecked"),
        Ok((Ok(()), Some(Err(e)))) => Sexp::app("CheckError", vec![enc(&e)]),
    };
    // 3. goals
    let mut gout = vec![];
    for g in goals {
        let g = match String::from_utf8(g) { Ok(t) => t, Err(_) => { gout.push(Sexp::atom("NotUtf8")); continue; } };
        let r = match guarded(|| chalk_parse::parse_goal(&g)) {
            Err(p) => panic_out(&p),
            Ok(Err(e)) => Sexp::app("ParseError", vec![enc(&e.to_string())]),
            Ok(Ok(ast)) => match &program {
                None => Sexp::atom("Parsed"),
                Some(p) => match guarded(|| lower_goal(&ast, p)) {
                    Err(p) => panic_out(&p),
                    Ok(Err(e)) => Sexp::app("LowerError", vec![Sexp::atom(&class_of(&e)), enc(&e.to_string())]),
                    Ok(Ok(_)) => Sexp::atom("Ok"),
                },
            },
        };
        gout.push(r);
    }
    Ok(Sexp::app("R", vec![direct, via_db, Sexp::list(gout)]))
}
