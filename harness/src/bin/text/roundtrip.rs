//! `text roundtrip` / `text tokens` / `text dump`: drive the real writer
//! (`chalk_solve::display::write_items`) and dump lowered programs structurally.
//!
//!   (RT "<pct text>")  ->  (RT <dump P1> "<pct text2>" <dump P2> "<pct text3>" [<dump P3>])
//!                        | (InputError "m") | (WritePanic k "m") | (ReparseError k "m" "<pct text>")
//!   (TK "<pct text>")  ->  (TK ["tok" ...])  tokens of the writer output  | (InputError "m") | ...
//!   (DP "<pct text>")  ->  (DP <dump P1>)
//!
//! The dump is a structural rendering of `chalk_integration::program::Program` restricted to
//! what the `.chalk` surface syntax can express, with item ids (raw indices), item names kept
//! apart from the bodies, where-clause lists and bound lists rendered as sorted duplicate-free
//! lists (the property compares them as sets), `dyn` bound lists likewise.
use crate::{enc, pct_decode};
use chalk_integration::db::ChalkDatabase;
use chalk_integration::interner::{ChalkFnAbi, ChalkIr};
use chalk_integration::program::Program;
use chalk_integration::query::LoweringDatabase;
use chalk_integration::{tls, SolverChoice};
use chalk_ir::*;
use chalk_solve::display::{write_items, WriterState};
use chalk_solve::logging_db::RecordedItemId;
use chalk_solve::rust_ir::{self, InlineBound, QuantifiedInlineBound};
use std::sync::Arc;
use vh::batch::guarded;
use vh::sexp::Sexp;

const I: ChalkIr = ChalkIr;

fn app(h: &str, a: Vec<Sexp>) -> Sexp { Sexp::app(h, a) }
fn atom(h: &str) -> Sexp { Sexp::atom(h) }
fn num(n: usize) -> Sexp { Sexp::num(n as u64) }
fn list(v: Vec<Sexp>) -> Sexp { Sexp::list(v) }
fn set(mut v: Vec<Sexp>) -> Sexp {
    v.sort_by_key(|s| s.to_string());
    v.dedup();
    Sexp::list(v)
}
fn raw(id: chalk_integration::RawId) -> Sexp { num(id.index as usize) }

fn kinds(b: &VariableKinds<ChalkIr>) -> Sexp {
    list(b.iter(I).map(|k| match k {
        VariableKind::Ty(TyVariableKind::General) => atom("KTy"),
        VariableKind::Ty(TyVariableKind::Integer) => atom("KInt"),
        VariableKind::Ty(TyVariableKind::Float) => atom("KFloat"),
        VariableKind::Lifetime => atom("KLt"),
        VariableKind::Const(_) => atom("KConst"),
    }).collect())
}

fn bv(h: &str, b: &BoundVar) -> Sexp { app(h, vec![num(b.debruijn.depth() as usize), num(b.index)]) }

fn lt(l: &Lifetime<ChalkIr>) -> Sexp {
    match l.data(I) {
        LifetimeData::BoundVar(b) => bv("LBV", b),
        LifetimeData::Static => atom("LStatic"),
        LifetimeData::Erased => atom("LErased"),
        o => app("LOther", vec![Sexp::string(&format!("{:?}", o))]),
    }
}

fn konst(c: &Const<ChalkIr>) -> Sexp {
    match &c.data(I).value {
        ConstValue::BoundVar(b) => bv("CBV", b),
        ConstValue::Concrete(v) => app("CVal", vec![num(v.interned as usize)]),
        _ => app("COther", vec![Sexp::string(&format!("{:?}", c))]),
    }
}

fn garg(g: &GenericArg<ChalkIr>) -> Sexp {
    match g.data(I) {
        GenericArgData::Ty(t) => app("GTy", vec![ty(t)]),
        GenericArgData::Lifetime(l) => app("GLt", vec![lt(l)]),
        GenericArgData::Const(c) => app("GConst", vec![konst(c)]),
    }
}

fn subst(s: &Substitution<ChalkIr>) -> Sexp { list(s.iter(I).map(garg).collect()) }

fn scalar(s: &Scalar) -> Sexp {
    atom(&match s {
        Scalar::Bool => "bool".to_string(),
        Scalar::Char => "char".to_string(),
        Scalar::Int(i) => format!("{:?}", i).to_lowercase(),
        Scalar::Uint(u) => format!("{:?}", u).to_lowercase(),
        Scalar::Float(f) => format!("{:?}", f).to_lowercase(),
    })
}

fn mutab(m: &Mutability) -> Sexp { atom(match m { Mutability::Mut => "Mut", Mutability::Not => "Not" }) }

fn sig(s: &FnSig<ChalkIr>) -> Sexp {
    app("Sig", vec![
        atom(match s.safety { Safety::Safe => "Safe", Safety::Unsafe => "Unsafe" }),
        atom(match s.abi { ChalkFnAbi::Rust => "AbiRust", ChalkFnAbi::C => "AbiC" }),
        Sexp::boolean(s.variadic),
    ])
}

fn ty(t: &Ty<ChalkIr>) -> Sexp {
    match t.kind(I) {
        TyKind::Adt(id, s) => app("Adt", vec![raw(id.0), subst(s)]),
        TyKind::Scalar(s) => app("Scalar", vec![scalar(s)]),
        TyKind::Tuple(n, s) => app("Tuple", vec![num(*n), subst(s)]),
        TyKind::Ref(m, l, t) => app("Ref", vec![mutab(m), lt(l), ty(t)]),
        TyKind::Raw(m, t) => app("Raw", vec![mutab(m), ty(t)]),
        TyKind::Slice(t) => app("Slice", vec![ty(t)]),
        TyKind::Array(t, c) => app("Array", vec![ty(t), konst(c)]),
        TyKind::Str => atom("Str"),
        TyKind::Never => atom("Never"),
        TyKind::Function(f) => app("FnPtr", vec![num(f.num_binders), sig(&f.sig), subst(&f.substitution.0)]),
        TyKind::Dyn(d) => app("Dyn", vec![
            kinds(&d.bounds.binders),
            set(d.bounds.skip_binders().iter(I).map(qwc).collect()),
            lt(&d.lifetime),
        ]),
        TyKind::BoundVar(b) => bv("BV", b),
        TyKind::Alias(AliasTy::Projection(p)) => app("Proj", vec![raw(p.associated_ty_id.0), subst(&p.substitution)]),
        TyKind::Alias(AliasTy::Opaque(o)) => app("OpaqueAlias", vec![raw(o.opaque_ty_id.0), subst(&o.substitution)]),
        TyKind::OpaqueType(id, s) => app("OpaqueTy", vec![raw(id.0), subst(s)]),
        TyKind::FnDef(id, s) => app("FnDefTy", vec![raw(id.0), subst(s)]),
        TyKind::Foreign(id) => app("Foreign", vec![raw(id.0)]),
        TyKind::Closure(id, s) => app("Closure", vec![raw(id.0), subst(s)]),
        TyKind::Coroutine(id, s) => app("Coroutine", vec![raw(id.0), subst(s)]),
        o => app("TyOther", vec![Sexp::string(&format!("{:?}", o))]),
    }
}

fn trait_ref(t: &TraitRef<ChalkIr>) -> Sexp { app("TraitRef", vec![raw(t.trait_id.0), subst(&t.substitution)]) }

fn wc(w: &WhereClause<ChalkIr>) -> Sexp {
    match w {
        WhereClause::Implemented(t) => app("Implemented", vec![trait_ref(t)]),
        WhereClause::AliasEq(a) => {
            let al = match &a.alias {
                AliasTy::Projection(p) => app("Proj", vec![raw(p.associated_ty_id.0), subst(&p.substitution)]),
                AliasTy::Opaque(o) => app("OpaqueAlias", vec![raw(o.opaque_ty_id.0), subst(&o.substitution)]),
            };
            app("AliasEq", vec![al, ty(&a.ty)])
        }
        WhereClause::LifetimeOutlives(o) => app("LtOutlives", vec![lt(&o.a), lt(&o.b)]),
        WhereClause::TypeOutlives(o) => app("TyOutlives", vec![ty(&o.ty), lt(&o.lifetime)]),
    }
}

fn qwc(q: &QuantifiedWhereClause<ChalkIr>) -> Sexp { app("Q", vec![kinds(&q.binders), wc(q.skip_binders())]) }
fn qwcs(v: &[QuantifiedWhereClause<ChalkIr>]) -> Sexp { set(v.iter().map(qwc).collect()) }

fn qib(q: &QuantifiedInlineBound<ChalkIr>) -> Sexp {
    let b = match q.skip_binders() {
        InlineBound::TraitBound(t) => app("TraitBound", vec![raw(t.trait_id.0), list(t.args_no_self.iter().map(garg).collect())]),
        InlineBound::AliasEqBound(a) => app("AliasEqBound", vec![
            raw(a.trait_bound.trait_id.0),
            list(a.trait_bound.args_no_self.iter().map(garg).collect()),
            raw(a.associated_ty_id.0),
            list(a.parameters.iter().map(garg).collect()),
            ty(&a.value),
        ]),
    };
    app("QB", vec![kinds(&q.binders), b])
}

fn variances(v: &[Variance]) -> Sexp {
    list(v.iter().map(|v| atom(match v { Variance::Covariant => "Covariant", Variance::Invariant => "Invariant", Variance::Contravariant => "Contravariant" })).collect())
}

fn name(s: &dyn std::fmt::Display) -> Sexp { Sexp::string(&s.to_string()) }

pub fn dump(p: &Program) -> Sexp {
    let mut items = vec![];
    for (id, d) in &p.adt_data {
        let b = d.binders.skip_binders();
        let repr = &p.adt_reprs[id];
        items.push(app("Adt", vec![
            raw(id.0), name(&p.adt_kinds[id].name), kinds(&d.binders.binders),
            atom(&format!("{:?}", d.kind)),
            app("Flags", vec![Sexp::boolean(d.flags.upstream), Sexp::boolean(d.flags.fundamental), Sexp::boolean(d.flags.phantom_data)]),
            app("Repr", vec![Sexp::boolean(repr.c), Sexp::boolean(repr.packed), match &repr.int { Some(t) => app("Some", vec![ty(t)]), None => atom("None") }]),
            Sexp::boolean(p.adt_size_aligns[id].one_zst()),
            variances(&p.adt_variances[id]),
            list(b.variants.iter().map(|v| list(v.fields.iter().map(ty).collect())).collect()),
            qwcs(&b.where_clauses),
        ]));
    }
    for (id, d) in &p.trait_data {
        let f = &d.flags;
        items.push(app("Trait", vec![
            raw(id.0), name(&p.trait_kinds[id].name), kinds(&d.binders.binders),
            app("Flags", vec![f.auto, f.marker, f.upstream, f.fundamental, f.non_enumerable, f.coinductive].into_iter().map(Sexp::boolean).collect()),
            Sexp::boolean(p.object_safe_traits.contains(id)),
            match d.well_known { Some(w) => atom(&format!("{:?}", w)), None => atom("None") },
            list(d.associated_ty_ids.iter().map(|a| raw(a.0)).collect()),
            qwcs(&d.binders.skip_binders().where_clauses),
        ]));
    }
    for (id, d) in &p.associated_ty_data {
        let b = d.binders.skip_binders();
        let wk: Vec<Sexp> = p.well_known_assoc_types.iter().filter(|(_, v)| *v == id).map(|(k, _)| atom(&format!("{:?}", k))).collect();
        items.push(app("AssocTy", vec![
            raw(id.0), name(&d.name), raw(d.trait_id.0), kinds(&d.binders.binders),
            set(b.bounds.iter().map(qib).collect()),
            qwcs(&b.where_clauses),
            list(wk),
        ]));
    }
    for (id, d) in &p.impl_data {
        let b = d.binders.skip_binders();
        items.push(app("Impl", vec![
            raw(id.0), atom(&format!("{:?}", d.polarity)), atom(&format!("{:?}", d.impl_type)), kinds(&d.binders.binders),
            trait_ref(&b.trait_ref), qwcs(&b.where_clauses),
            list(d.associated_ty_value_ids.iter().map(|a| raw(a.0)).collect()),
        ]));
    }
    for (id, d) in &p.associated_ty_values {
        items.push(app("Atv", vec![
            raw(id.0), raw(d.impl_id.0), raw(d.associated_ty_id.0), kinds(&d.value.binders), ty(&d.value.skip_binders().ty),
        ]));
    }
    for (id, d) in &p.opaque_ty_data {
        let b = d.bound.skip_binders();
        items.push(app("Opaque", vec![
            raw(id.0), name(&p.opaque_ty_kinds[id].name), kinds(&d.bound.binders),
            qwcs(b.bounds.skip_binders()), qwcs(b.where_clauses.skip_binders()),
            match p.hidden_opaque_types.get(id) { Some(t) => ty(t), None => atom("NoHidden") },
        ]));
    }
    for (id, d) in &p.fn_def_data {
        let b = d.binders.skip_binders();
        let io = b.inputs_and_output.skip_binders();
        items.push(app("FnDef", vec![
            raw(id.0), name(&p.fn_def_kinds[id].name), kinds(&d.binders.binders), sig(&d.sig),
            variances(&p.fn_def_variances[id]),
            list(io.argument_types.iter().map(ty).collect()), ty(&io.return_type),
            qwcs(&b.where_clauses),
        ]));
    }
    // item kinds the writer does not handle: only counted, so that the check can tell
    // "not written by design" from "lost"
    let unwritten = app("Unwritten", vec![
        num(p.closure_ids.len()), num(p.coroutine_ids.len()), num(p.foreign_ty_ids.len()), num(p.custom_clauses.len()),
    ]);
    app("Program", vec![list(items), unwritten])
}

/// All item ids the writer can print, in program order (as tests/display/util.rs does).
fn item_ids(program: &Program) -> Vec<RecordedItemId<ChalkIr>> {
    let mut ids: Vec<(chalk_integration::RawId, RecordedItemId<ChalkIr>)> = vec![];
    ids.extend(program.adt_data.keys().map(|&i| (i.0, RecordedItemId::from(i))));
    ids.extend(program.trait_data.keys().map(|&i| (i.0, RecordedItemId::from(i))));
    ids.extend(program.impl_data.keys().map(|&i| (i.0, RecordedItemId::from(i))));
    ids.extend(program.opaque_ty_data.keys().map(|&i| (i.0, RecordedItemId::from(i))));
    ids.extend(program.fn_def_data.keys().map(|&i| (i.0, RecordedItemId::from(i))));
    ids.sort_by_key(|(r, _)| *r);
    ids.into_iter().map(|(_, i)| i).collect()
}

pub fn write_program(program: &Arc<Program>) -> Result<String, String> {
    guarded(|| {
        tls::set_current_program(program, || {
            let mut out = String::new();
            write_items::<_, _, Program, _, _>(&mut out, &WriterState::new(&**program), item_ids(program)).map(|_| out)
        })
    })
    .and_then(|r| r.map_err(|e| format!("fmt error: {}", e)))
}

fn lower_text(text: &str) -> Result<Result<Arc<Program>, String>, String> {
    guarded(|| {
        let db = ChalkDatabase::with(text, SolverChoice::slg_default());
        db.program_ir().map_err(|e| e.to_string())
    })
}

fn text_arg(case: &Sexp, head: &str) -> Result<String, String> {
    if case.head() != Some(head) { return Err(format!("expected ({} \"text\")", head)); }
    let b = pct_decode(case.args().get(0).ok_or("missing text")?.as_str()?)?;
    String::from_utf8(b).map_err(|e| e.to_string())
}

pub fn run_roundtrip(case: &Sexp) -> Result<Sexp, String> {
    let text = text_arg(case, "RT")?;
    let p1 = match lower_text(&text) {
        Err(p) => return Ok(app("InputError", vec![enc(&format!("panic: {}", p))])),
        Ok(Err(e)) => return Ok(app("InputError", vec![enc(&e)])),
        Ok(Ok(p)) => p,
    };
    let d1 = dump(&p1);
    let text2 = match write_program(&p1) { Ok(t) => t, Err(m) => return Ok(app("WritePanic", vec![num(1), enc(&m), d1])) };
    let p2 = match lower_text(&text2) {
        Err(p) => return Ok(app("ReparseError", vec![num(1), enc(&format!("panic: {}", p)), enc(&text2), d1])),
        Ok(Err(e)) => return Ok(app("ReparseError", vec![num(1), enc(&e), enc(&text2), d1])),
        Ok(Ok(p)) => p,
    };
    let d2 = dump(&p2);
    let text3 = match write_program(&p2) { Ok(t) => t, Err(m) => return Ok(app("WritePanic", vec![num(2), enc(&m), enc(&text2), d1])) };
    let d3 = match lower_text(&text3) {
        Ok(Ok(p)) => dump(&p),
        Err(p) => app("ReparseError", vec![num(2), enc(&format!("panic: {}", p))]),
        Ok(Err(e)) => app("ReparseError", vec![num(2), enc(&e)]),
    };
    Ok(app("RT", vec![d1, enc(&text2), d2, enc(&text3), d3]))
}

pub fn run_dump(case: &Sexp) -> Result<Sexp, String> {
    let text = text_arg(case, "DP")?;
    match lower_text(&text) {
        Err(p) => Ok(app("InputError", vec![enc(&format!("panic: {}", p))])),
        Ok(Err(e)) => Ok(app("InputError", vec![enc(&e)])),
        Ok(Ok(p)) => Ok(app("DP", vec![dump(&p)])),
    }
}

/// Lexer of the `.chalk` surface syntax as far as the writer's output needs it: identifiers,
/// lifetimes, numbers, and punctuation (`->`, `::`, `...` as single tokens).
pub fn tokenize(text: &str) -> Vec<String> {
    let cs: Vec<char> = text.chars().collect();
    let mut out = vec![];
    let mut i = 0;
    while i < cs.len() {
        let c = cs[i];
        if c.is_whitespace() { i += 1; continue; }
        if c.is_ascii_alphabetic() || c == '_' {
            let s = i;
            while i < cs.len() && (cs[i].is_ascii_alphanumeric() || cs[i] == '_') { i += 1; }
            out.push(cs[s..i].iter().collect());
        } else if c == '\'' {
            let s = i;
            i += 1;
            while i < cs.len() && (cs[i].is_ascii_alphanumeric() || cs[i] == '_') { i += 1; }
            out.push(cs[s..i].iter().collect());
        } else if c.is_ascii_digit() {
            let s = i;
            while i < cs.len() && cs[i].is_ascii_digit() { i += 1; }
            out.push(cs[s..i].iter().collect());
        } else if c == '-' && i + 1 < cs.len() && cs[i + 1] == '>' { out.push("->".into()); i += 2; }
        else if c == ':' && i + 1 < cs.len() && cs[i + 1] == ':' { out.push("::".into()); i += 2; }
        else if c == '.' && i + 2 < cs.len() && cs[i + 1] == '.' && cs[i + 2] == '.' { out.push("...".into()); i += 3; }
        else { out.push(c.to_string()); i += 1; }
    }
    out
}

pub fn run_tokens(case: &Sexp) -> Result<Sexp, String> {
    let text = text_arg(case, "TK")?;
    let p1 = match lower_text(&text) {
        Err(p) => return Ok(app("InputError", vec![enc(&format!("panic: {}", p))])),
        Ok(Err(e)) => return Ok(app("InputError", vec![enc(&e)])),
        Ok(Ok(p)) => p,
    };
    let text2 = match write_program(&p1) { Ok(t) => t, Err(m) => return Ok(app("WritePanic", vec![num(1), enc(&m)])) };
    Ok(app("TK", vec![list(tokenize(&text2).iter().map(|t| enc(t)).collect()), dump(&p1)]))
}
