//! `solve` — runs the real chalk solvers on (program text, goal texts) cases.
//!
//! Interface: /verif/tools/LOGIC_INTERFACE.md.  One S-expression case per stdin line, one
//! result line per case.  The goals of a case run in a forked child with a per-goal CPU limit,
//! an address-space limit and its own thread stack, because the unchanged solvers can run for
//! 2^30 steps (DESIGN N5) or overflow the native stack (F13): when the child dies, the goal it
//! was working on becomes `Timeout` / `(Abort "...")` and a new child resumes with the next
//! goal (in `History` mode the remaining goals are `Skipped`).
//!
//!   case   ::= (Case "<program>" ["<goal>" ...] <solver> <mode> [<opt> ...])
//!   solver ::= Slg | (SlgWith max_size) | Rec | (RecWith overflow_depth caching max_size)
//!   mode   ::= Fresh | History | (Multiple k) | (Limited [i ...]) | (LimitedFrom k) | (HistoryMulti [S | (M k) ...])
//!   opt    ::= Checked | Dump | (Cpu secs) | (StackMb n) | (MemMb n)
//!   result ::= (Result <dump|NoDump> [<goalres> ...]) | (ProgramError "msg")
//!   goalres::= (R [<pv> ...] <answer>) | (GoalError "msg")
//!   pv     ::= E | (A u i)              peeled prefix, in binder order
//!   answer ::= (Unique [u ...] [<ty> ...] has_constraints) | NoSolution
//!            | (AmbigDefinite [u ...] [<ty> ...]) | (AmbigSuggested [u ...] [<ty> ...]) | AmbigUnknown
//!            | (Answers [<item> ...] complete [flag ...])   (Multiple)   item ::= (Definite us tys hc) | (Ambiguous us tys hc) | Floundered
//!                                                flag = the callback's 2nd argument ("a next answer exists"), one per item
//!            | (Lim <answer> ncalls)             (Limited)
//!            | (Panic "msg") | Timeout | (Abort "why") | Skipped
//!   ty     ::= (App "label" [<ty> ...]) | (BV i) | (IBV d i) | (Ph u i) | Free | (Lt <ty>)   (Lt = a lifetime)
use chalk_integration::db::ChalkDatabase;
use chalk_integration::interner::ChalkIr;
use chalk_integration::lowering::lower_goal;
use chalk_integration::program::Program;
use chalk_integration::query::LoweringDatabase;
use chalk_integration::{tls, SolverChoice};
use chalk_ir::*;
use chalk_solve::infer::ucanonicalize::UniverseMapExt;
use chalk_solve::infer::InferenceTable;
use chalk_solve::rust_ir::Polarity;
use chalk_solve::{Guidance, Solution, Solver, SubstitutionResult};
use std::cell::Cell;
use std::io::{BufRead, Read, Write};
use std::sync::Arc;
use vh::batch::{guarded, install_quiet_panic_hook};
use vh::sexp::{parse, Sexp};

// ---------------------------------------------------------------------------------------
// minimal libc surface (std already links libc; no crate needed)
// ---------------------------------------------------------------------------------------
#[repr(C)]
struct RLimit { cur: u64, max: u64 }
extern "C" {
    fn fork() -> i32;
    fn pipe(fds: *mut i32) -> i32;
    fn close(fd: i32) -> i32;
    fn read(fd: i32, buf: *mut u8, n: usize) -> isize;
    fn write(fd: i32, buf: *const u8, n: usize) -> isize;
    fn waitpid(pid: i32, status: *mut i32, options: i32) -> i32;
    fn setrlimit(resource: i32, rlim: *const RLimit) -> i32;
    fn _exit(code: i32) -> !;
    fn clock_gettime(clk: i32, ts: *mut [i64; 2]) -> i32;
}
const RLIMIT_CPU: i32 = 0;
const RLIMIT_AS: i32 = 9;
const CLOCK_PROCESS_CPUTIME_ID: i32 = 2;

fn cpu_seconds_used() -> u64 {
    let mut ts = [0i64; 2];
    unsafe { clock_gettime(CLOCK_PROCESS_CPUTIME_ID, &mut ts) };
    ts[0] as u64
}
fn set_cpu_limit(secs_from_now: u64) {
    let l = RLimit { cur: cpu_seconds_used() + secs_from_now, max: u64::MAX };
    unsafe { setrlimit(RLIMIT_CPU, &l) };
}

// ---------------------------------------------------------------------------------------
// configuration
// ---------------------------------------------------------------------------------------
#[derive(Clone, Debug)]
enum Mode { Fresh, History, Multiple(usize), Limited(Vec<u64>), LimitedFrom(u64), HistoryMulti(Vec<Option<usize>>) }

#[derive(Clone)]
struct Cfg { solver: SolverChoice, mode: Mode, checked: bool, dump: bool, cpu: u64, stack_mb: usize, mem_mb: u64 }

fn parse_solver(s: &Sexp) -> Result<SolverChoice, String> {
    let a = s.args();
    match s.head() {
        Some("Slg") => Ok(SolverChoice::slg_default()),
        Some("SlgWith") => Ok(SolverChoice::slg(a[0].as_num()? as usize, None)),
        Some("Rec") => Ok(SolverChoice::recursive_default()),
        Some("RecWith") => Ok(SolverChoice::Recursive {
            overflow_depth: a[0].as_num()? as usize,
            caching_enabled: a[1].as_bool()?,
            max_size: a[2].as_num()? as usize,
        }),
        _ => Err(format!("bad solver {}", s)),
    }
}

fn parse_mode(s: &Sexp) -> Result<Mode, String> {
    let a = s.args();
    match s.head() {
        Some("Fresh") => Ok(Mode::Fresh),
        Some("History") => Ok(Mode::History),
        Some("Multiple") => Ok(Mode::Multiple(a[0].as_num()? as usize)),
        Some("Limited") => Ok(Mode::Limited(a[0].as_list()?.iter().map(|x| x.as_num()).collect::<Result<_, _>>()?)),
        Some("LimitedFrom") => Ok(Mode::LimitedFrom(a[0].as_num()?)),
        Some("HistoryMulti") => {
            let mut steps = vec![];
            for st in a[0].as_list()? {
                match st.head() {
                    Some("S") => steps.push(None),
                    Some("M") => steps.push(Some(st.args()[0].as_num()? as usize)),
                    _ => return Err(format!("bad step {}", st)),
                }
            }
            Ok(Mode::HistoryMulti(steps))
        }
        _ => Err(format!("bad mode {}", s)),
    }
}

// ---------------------------------------------------------------------------------------
// chalk_ir -> S-expression (ids mapped back to names)
// ---------------------------------------------------------------------------------------
struct Names<'a> { p: &'a Program, umap: Option<&'a UniverseMap> }

fn app(label: String, args: Vec<Sexp>) -> Sexp { Sexp::App("App".into(), vec![Sexp::Str(label), Sexp::List(args)]) }

impl<'a> Names<'a> {
    fn adt(&self, id: AdtId<ChalkIr>) -> String { self.p.adt_kinds.get(&id).map(|k| k.name.to_string()).unwrap_or(format!("{:?}", id)) }
    fn tr(&self, id: TraitId<ChalkIr>) -> String { self.p.trait_kinds.get(&id).map(|k| k.name.to_string()).unwrap_or(format!("{:?}", id)) }
    fn universe(&self, ui: UniverseIndex) -> u64 {
        match self.umap { Some(m) => m.map_universe_from_canonical(ui).counter as u64, None => ui.counter as u64 }
    }
    fn bound(&self, bv: BoundVar, depth: u32) -> Sexp {
        let d = bv.debruijn.depth();
        if d >= depth {
            if d == depth { Sexp::App("BV".into(), vec![Sexp::Num(bv.index as u64)]) }
            else { Sexp::App("OBV".into(), vec![Sexp::Num((d - depth) as u64), Sexp::Num(bv.index as u64)]) }
        } else {
            Sexp::App("IBV".into(), vec![Sexp::Num(d as u64), Sexp::Num(bv.index as u64)])
        }
    }
    fn ph(&self, p: PlaceholderIndex) -> Sexp {
        Sexp::App("Ph".into(), vec![Sexp::Num(self.universe(p.ui)), Sexp::Num(p.idx as u64)])
    }
    fn subst(&self, s: &Substitution<ChalkIr>, depth: u32) -> Vec<Sexp> {
        s.iter(ChalkIr).map(|g| self.garg(g, depth)).collect()
    }
    fn garg(&self, g: &GenericArg<ChalkIr>, depth: u32) -> Sexp {
        match g.data(ChalkIr) {
            GenericArgData::Ty(t) => self.ty(t, depth),
            GenericArgData::Lifetime(l) => self.lt(l, depth),
            GenericArgData::Const(c) => self.cst(c, depth),
        }
    }
    /// lifetimes are wrapped in `(Lt ..)` so that consumers can ignore them (the properties do
    /// not compare lifetime constraints, and lifetime values are entangled with them)
    fn lt(&self, l: &Lifetime<ChalkIr>, depth: u32) -> Sexp {
        Sexp::App("Lt".into(), vec![self.lt_inner(l, depth)])
    }
    fn lt_inner(&self, l: &Lifetime<ChalkIr>, depth: u32) -> Sexp {
        match l.data(ChalkIr) {
            LifetimeData::BoundVar(bv) => self.bound(*bv, depth),
            LifetimeData::InferenceVar(v) => app(format!("'?{}", v.index()), vec![]),
            LifetimeData::Placeholder(p) => self.ph(*p),
            LifetimeData::Static => app("'static".into(), vec![]),
            LifetimeData::Erased => app("'erased".into(), vec![]),
            LifetimeData::Error => app("'error".into(), vec![]),
            LifetimeData::Phantom(..) => unreachable!(),
        }
    }
    fn cst(&self, c: &Const<ChalkIr>, depth: u32) -> Sexp {
        let d = c.data(ChalkIr);
        match &d.value {
            ConstValue::BoundVar(bv) => self.bound(*bv, depth),
            ConstValue::InferenceVar(v) => app(format!("const?{}", v.index()), vec![]),
            ConstValue::Placeholder(p) => self.ph(*p),
            ConstValue::Concrete(cc) => app(format!("const:{:?}", cc.interned), vec![]),
        }
    }
    fn ty(&self, t: &Ty<ChalkIr>, depth: u32) -> Sexp {
        match t.kind(ChalkIr) {
            TyKind::Adt(id, s) => app(format!("adt:{}", self.adt(*id)), self.subst(s, depth)),
            TyKind::AssociatedType(id, s) => app(format!("assoc:{:?}", id), self.subst(s, depth)),
            TyKind::Scalar(sc) => app(format!("scalar:{:?}", sc), vec![]),
            TyKind::Tuple(n, s) => app(format!("tuple:{}", n), self.subst(s, depth)),
            TyKind::Array(t, c) => app("array".into(), vec![self.ty(t, depth), self.cst(c, depth)]),
            TyKind::Slice(t) => app("slice".into(), vec![self.ty(t, depth)]),
            TyKind::Raw(m, t) => app(format!("raw:{:?}", m), vec![self.ty(t, depth)]),
            TyKind::Ref(m, l, t) => app(format!("ref:{:?}", m), vec![self.lt(l, depth), self.ty(t, depth)]),
            TyKind::OpaqueType(id, s) => app(format!("opaque:{:?}", id), self.subst(s, depth)),
            TyKind::FnDef(id, s) => app(format!("fndef:{:?}", id), self.subst(s, depth)),
            TyKind::Str => app("str".into(), vec![]),
            TyKind::Never => app("never".into(), vec![]),
            TyKind::Closure(id, s) => app(format!("closure:{:?}", id), self.subst(s, depth)),
            TyKind::Coroutine(id, s) => app(format!("coroutine:{:?}", id), self.subst(s, depth)),
            TyKind::CoroutineWitness(id, s) => app(format!("coroutine_witness:{:?}", id), self.subst(s, depth)),
            TyKind::Foreign(id) => app(format!("foreign:{:?}", id), vec![]),
            TyKind::Error => app("error".into(), vec![]),
            TyKind::Placeholder(p) => self.ph(*p),
            // binder-carrying types are kept opaque: their Debug text is the label
            TyKind::Dyn(d) => app(format!("dyn:{:?}", d), vec![]),
            TyKind::Function(f) => app(format!("fnptr:{:?}", f), vec![]),
            TyKind::Alias(AliasTy::Projection(p)) => app(format!("proj:{:?}", p.associated_ty_id), self.subst(&p.substitution, depth)),
            TyKind::Alias(AliasTy::Opaque(o)) => app(format!("opaque_alias:{:?}", o.opaque_ty_id), self.subst(&o.substitution, depth)),
            TyKind::BoundVar(bv) => self.bound(*bv, depth),
            TyKind::InferenceVar(v, k) => app(format!("infer:{}:{:?}", v.index(), k), vec![]),
        }
    }
    fn trait_ref(&self, tr: &TraitRef<ChalkIr>, depth: u32) -> Vec<Sexp> {
        vec![Sexp::Str(self.tr(tr.trait_id)), Sexp::List(self.subst(&tr.substitution, depth))]
    }
    fn qwc(&self, q: &QuantifiedWhereClause<ChalkIr>, depth: u32) -> Sexp {
        let n = q.binders.len(ChalkIr);
        let inner = match q.skip_binders() {
            WhereClause::Implemented(tr) => Sexp::App("Implemented".into(), self.trait_ref(tr, depth + 1)),
            o => Sexp::App("OtherWc".into(), vec![Sexp::Str(format!("{:?}", o))]),
        };
        if n == 0 { inner } else { Sexp::App("ForallWc".into(), vec![Sexp::Num(n as u64), inner]) }
    }
}

fn dump_program(p: &Program) -> Sexp {
    let nm = Names { p, umap: None };
    let mut adts = vec![];
    for (id, d) in &p.adt_data {
        let b = d.binders.skip_binders();
        let variants: Vec<Sexp> = b.variants.iter().map(|v| Sexp::List(v.fields.iter().map(|f| nm.ty(f, 0)).collect())).collect();
        adts.push(Sexp::App("Adt".into(), vec![
            Sexp::Str(nm.adt(*id)), Sexp::Num(d.binders.len(ChalkIr) as u64), Sexp::Str(format!("{:?}", d.kind)),
            Sexp::List(variants), Sexp::List(b.where_clauses.iter().map(|w| nm.qwc(w, 0)).collect())]));
    }
    let mut traits = vec![];
    for (id, d) in &p.trait_data {
        let mut flags = vec![];
        if d.flags.auto { flags.push(Sexp::atom("auto")); }
        if d.flags.coinductive { flags.push(Sexp::atom("coinductive")); }
        if d.flags.marker { flags.push(Sexp::atom("marker")); }
        if d.flags.upstream { flags.push(Sexp::atom("upstream")); }
        if d.flags.fundamental { flags.push(Sexp::atom("fundamental")); }
        if d.flags.non_enumerable { flags.push(Sexp::atom("non_enumerable")); }
        traits.push(Sexp::App("Trait".into(), vec![
            Sexp::Str(nm.tr(*id)), Sexp::Num(d.binders.len(ChalkIr) as u64), Sexp::List(flags),
            Sexp::List(d.binders.skip_binders().where_clauses.iter().map(|w| nm.qwc(w, 0)).collect()),
            Sexp::Str(d.well_known.map(|w| format!("{:?}", w)).unwrap_or_default()),
            Sexp::Num(d.associated_ty_ids.len() as u64)]));
    }
    let mut impls = vec![];
    for (_id, d) in &p.impl_data {
        let b = d.binders.skip_binders();
        impls.push(Sexp::App("Impl".into(), vec![
            Sexp::Num(d.binders.len(ChalkIr) as u64),
            Sexp::boolean(matches!(d.polarity, Polarity::Positive)),
            Sexp::App("TraitRef".into(), nm.trait_ref(&b.trait_ref, 0)),
            Sexp::List(b.where_clauses.iter().map(|w| nm.qwc(w, 0)).collect()),
            Sexp::Num(d.associated_ty_value_ids.len() as u64)]));
    }
    let other = p.fn_def_data.len() + p.closure_ids.len() + p.coroutine_ids.len() + p.opaque_ty_ids.len() + p.foreign_ty_ids.len();
    Sexp::App("Program".into(), vec![Sexp::List(adts), Sexp::List(traits), Sexp::List(impls),
        Sexp::App("Extra".into(), vec![Sexp::Num(p.custom_clauses.len() as u64), Sexp::Num(p.associated_ty_data.len() as u64), Sexp::Num(other as u64)])])
}

// ---------------------------------------------------------------------------------------
// goals
// ---------------------------------------------------------------------------------------
struct Peeled {
    goal: UCanonical<InEnvironment<Goal<ChalkIr>>>,
    universes: UniverseMap,
    prefix: Vec<Sexp>,
    /// for each user-level existential variable (peel order): its canonical index, if it occurs
    exist_to_canon: Vec<Option<usize>>,
}

/// `GoalExt::into_peeled_goal`, re-done with the public `InferenceTable` API so that we learn
/// which canonical variable each user-written `exists` variable became (canonicalisation
/// renumbers by first occurrence).
fn peel(goal: Goal<ChalkIr>) -> Peeled {
    let interner = ChalkIr;
    let mut infer: InferenceTable<ChalkIr> = InferenceTable::new();
    let mut prefix = vec![];
    let mut n_exists = 0usize;
    let mut n_universes = 0u64;
    let mut env_goal = InEnvironment::new(&Environment::new(interner), goal);
    let peeled = loop {
        let InEnvironment { environment, goal } = env_goal;
        match goal.data(interner) {
            GoalData::Quantified(QuantifierKind::ForAll, sub) => {
                let n = sub.binders.len(interner);
                if n > 0 { n_universes += 1; }
                for i in 0..n { prefix.push(Sexp::App("A".into(), vec![Sexp::Num(n_universes), Sexp::Num(i as u64)])); }
                let sub = infer.instantiate_binders_universally(interner, sub.clone());
                env_goal = InEnvironment::new(&environment, sub);
            }
            GoalData::Quantified(QuantifierKind::Exists, sub) => {
                let n = sub.binders.len(interner);
                for _ in 0..n { prefix.push(Sexp::atom("E")); }
                n_exists += n;
                let sub = infer.instantiate_binders_existentially(interner, sub.clone());
                env_goal = InEnvironment::new(&environment, sub);
            }
            GoalData::Implies(wc, sub) => {
                let new_env = environment.add_clauses(interner, wc.iter(interner).cloned());
                env_goal = InEnvironment::new(&new_env, Goal::clone(sub));
            }
            _ => break InEnvironment::new(&environment, goal),
        }
    };
    let canon = infer.canonicalize(interner, peeled);
    let mut exist_to_canon = vec![None; n_exists];
    for (k, v) in canon.free_vars.iter().enumerate() {
        let iv: InferenceVar = (*v.skip_kind()).into();
        let j = iv.index() as usize;
        assert!(j < n_exists, "inference variable numbering is not sequential");
        exist_to_canon[j] = Some(k);
    }
    let u = InferenceTable::u_canonicalize(interner, &canon.quantified);
    Peeled { goal: u.quantified, universes: u.universes, prefix, exist_to_canon }
}

fn subst_sexp(p: &Program, pe: &Peeled, binders: &CanonicalVarKinds<ChalkIr>, subst: &Substitution<ChalkIr>) -> (Sexp, Sexp) {
    let nm = Names { p, umap: Some(&pe.universes) };
    let us: Vec<Sexp> = binders.iter(ChalkIr).map(|b| Sexp::Num(nm.universe(*b.skip_kind()))).collect();
    let all: Vec<Sexp> = nm.subst(subst, 0);
    let tys: Vec<Sexp> = pe.exist_to_canon.iter().map(|k| match k {
        Some(k) if *k < all.len() => all[*k].clone(),
        _ => Sexp::atom("Free"),
    }).collect();
    (Sexp::List(us), Sexp::List(tys))
}

fn solution_sexp(p: &Program, pe: &Peeled, sol: Option<Solution<ChalkIr>>) -> Sexp {
    match sol {
        None => Sexp::atom("NoSolution"),
        Some(Solution::Unique(c)) => {
            let (us, tys) = subst_sexp(p, pe, &c.binders, &c.value.subst);
            Sexp::App("Unique".into(), vec![us, tys, Sexp::boolean(!c.value.constraints.is_empty(ChalkIr))])
        }
        Some(Solution::Ambig(Guidance::Definite(c))) => {
            let (us, tys) = subst_sexp(p, pe, &c.binders, &c.value);
            Sexp::App("AmbigDefinite".into(), vec![us, tys])
        }
        Some(Solution::Ambig(Guidance::Suggested(c))) => {
            let (us, tys) = subst_sexp(p, pe, &c.binders, &c.value);
            Sexp::App("AmbigSuggested".into(), vec![us, tys])
        }
        Some(Solution::Ambig(Guidance::Unknown)) => Sexp::atom("AmbigUnknown"),
    }
}

fn solve_one(db: &ChalkDatabase, program: &Arc<Program>, solver: &mut Box<dyn Solver<ChalkIr>>, mode: &Mode, text: &str) -> Sexp {
    let lowered = match chalk_parse::parse_goal(text) {
        Err(e) => return Sexp::App("GoalError".into(), vec![Sexp::Str(format!("parse: {}", e))]),
        Ok(g) => match lower_goal(&*g, &*program) {
            Err(e) => return Sexp::App("GoalError".into(), vec![Sexp::Str(format!("lower: {}", e))]),
            Ok(g) => g,
        },
    };
    let pe = peel(lowered);
    let ans = match guarded(|| match mode {
        Mode::Fresh | Mode::History | Mode::HistoryMulti(_) => solution_sexp(program, &pe, solver.solve(db, &pe.goal)),
        Mode::Multiple(k) => {
            let mut items = vec![];
            let mut flags = vec![];
            let k = *k;
            let complete = solver.solve_multiple(db, &pe.goal, &mut |res, next| {
                flags.push(Sexp::boolean(next));
                let it = match res {
                    SubstitutionResult::Definite(c) => {
                        let (us, tys) = subst_sexp(program, &pe, &c.binders, &c.value.subst);
                        Sexp::App("Definite".into(), vec![us, tys, Sexp::boolean(!c.value.constraints.is_empty(ChalkIr))])
                    }
                    SubstitutionResult::Ambiguous(c) => {
                        let (us, tys) = subst_sexp(program, &pe, &c.binders, &c.value.subst);
                        Sexp::App("Ambiguous".into(), vec![us, tys, Sexp::boolean(!c.value.constraints.is_empty(ChalkIr))])
                    }
                    SubstitutionResult::Floundered => Sexp::atom("Floundered"),
                };
                items.push(it);
                items.len() < k
            });
            Sexp::App("Answers".into(), vec![Sexp::List(items), Sexp::boolean(complete), Sexp::List(flags)])
        }
        Mode::Limited(_) | Mode::LimitedFrom(_) => {
            let calls = Cell::new(0u64);
            let sol = solver.solve_limited(db, &pe.goal, &|| {
                let i = calls.get();
                calls.set(i + 1);
                match mode {
                    Mode::Limited(v) => !v.contains(&i),
                    Mode::LimitedFrom(k) => i < *k,
                    _ => true,
                }
            });
            Sexp::App("Lim".into(), vec![solution_sexp(program, &pe, sol), Sexp::Num(calls.get())])
        }
    }) {
        Ok(s) => s,
        Err(msg) => Sexp::App("Panic".into(), vec![Sexp::Str(msg)]),
    };
    Sexp::App("R".into(), vec![Sexp::List(pe.prefix.clone()), ans])
}

// ---------------------------------------------------------------------------------------
// child processes
// ---------------------------------------------------------------------------------------

/// Runs `f` in a forked child on a thread with `stack_mb` of stack; `f` streams result lines
/// through `emit`.  Returns the lines received and how the child ended.
enum End { Clean, Timeout, Abort(String) }

fn in_child(cfg: &Cfg, f: impl FnOnce(&mut dyn FnMut(String))) -> (Vec<String>, End) {
    let mut fds = [0i32; 2];
    if unsafe { pipe(fds.as_mut_ptr()) } != 0 { return (vec![], End::Abort("pipe failed".into())); }
    let _ = std::io::stdout().flush();
    let pid = unsafe { fork() };
    if pid < 0 { return (vec![], End::Abort("fork failed".into())); }
    if pid == 0 {
        unsafe { close(fds[0]) };
        let wfd = fds[1];
        let lim = RLimit { cur: cfg.mem_mb * 1024 * 1024, max: cfg.mem_mb * 1024 * 1024 };
        unsafe { setrlimit(RLIMIT_AS, &lim) };
        set_cpu_limit(cfg.cpu);
        let stack = cfg.stack_mb * 1024 * 1024;
        // the child is single-threaded: moving the (non-Send) database borrow to the one
        // worker thread, which exists only to get a stack of the requested size, is safe.
        struct AssertSend<T>(T);
        unsafe impl<T> Send for AssertSend<T> {}
        let f = AssertSend(f);
        let r = std::thread::scope(|s| {
            std::thread::Builder::new().stack_size(stack).spawn_scoped(s, move || {
                let f = f;
                let f = f.0;
                install_quiet_panic_hook();
                let mut emit = |line: String| {
                    let b = format!("{}\n", line).into_bytes();
                    let mut off = 0;
                    while off < b.len() {
                        let n = unsafe { write(wfd, b[off..].as_ptr(), b.len() - off) };
                        if n <= 0 { break; }
                        off += n as usize;
                    }
                };
                f(&mut emit);
            }).map(|h| h.join().is_ok()).unwrap_or(false)
        });
        unsafe { _exit(if r { 0 } else { 3 }) };
    }
    unsafe { close(fds[1]) };
    let mut data = Vec::new();
    let mut buf = [0u8; 65536];
    loop {
        let n = unsafe { read(fds[0], buf.as_mut_ptr(), buf.len()) };
        if n <= 0 { break; }
        data.extend_from_slice(&buf[..n as usize]);
    }
    unsafe { close(fds[0]) };
    let mut status = 0i32;
    unsafe { waitpid(pid, &mut status, 0) };
    let text = String::from_utf8_lossy(&data).to_string();
    let complete_upto = text.rfind('\n').map(|i| i + 1).unwrap_or(0);
    let lines: Vec<String> = text[..complete_upto].lines().map(|s| s.to_string()).collect();
    let sig = status & 0x7f;
    let end = if sig == 0 {
        let code = (status >> 8) & 0xff;
        if code == 0 { End::Clean } else { End::Abort(format!("exit code {}", code)) }
    } else if sig == 24 || sig == 9 {
        End::Timeout
    } else {
        End::Abort(format!("signal {}", sig))
    };
    (lines, end)
}

fn end_sexp(e: &End) -> Sexp {
    match e {
        End::Clean => Sexp::App("Abort".into(), vec![Sexp::Str("child ended without a result".into())]),
        End::Timeout => Sexp::atom("Timeout"),
        End::Abort(s) => Sexp::App("Abort".into(), vec![Sexp::Str(s.clone())]),
    }
}

fn load(cfg: &Cfg, text: &str) -> Result<(ChalkDatabase, Arc<Program>), String> {
    let db = ChalkDatabase::with(text, cfg.solver);
    let program = if cfg.checked { db.checked_program() } else { db.program_ir() };
    match program {
        Ok(p) => Ok((db, p)),
        Err(e) => Err(format!("{}", e)),
    }
}

fn run_case(case: &Sexp) -> Result<Sexp, String> {
    if case.head() != Some("Case") || case.args().len() < 4 { return Err("expected (Case prog goals solver mode opts)".into()); }
    let a = case.args();
    let text = a[0].as_str()?.to_string();
    let goals: Vec<String> = a[1].as_list()?.iter().map(|g| g.as_str().map(|s| s.to_string())).collect::<Result<_, _>>()?;
    let mut cfg = Cfg { solver: parse_solver(&a[2])?, mode: parse_mode(&a[3])?, checked: false, dump: false, cpu: 10, stack_mb: 64, mem_mb: 4096 };
    if a.len() > 4 {
        for o in a[4].as_list()? {
            match o.head() {
                Some("Checked") => cfg.checked = true,
                Some("Dump") => cfg.dump = true,
                Some("Cpu") => cfg.cpu = o.args()[0].as_num()?,
                Some("StackMb") => cfg.stack_mb = o.args()[0].as_num()? as usize,
                Some("MemMb") => cfg.mem_mb = o.args()[0].as_num()?,
                _ => return Err(format!("bad option {}", o)),
            }
        }
    }
    // One child handles as many goals as it survives: it lowers the program (the parser /
    // lowering may panic or overflow, C24), emits the head line (dump) and then one line per
    // goal.  When it dies, the goal it was working on gets Timeout/Abort and a new child
    // resumes with the next goal (History: the rest of the history is Skipped).
    let n = goals.len();
    let mut results: Vec<Sexp> = Vec::with_capacity(n);
    let mut head: Option<Sexp> = None;
    let history = matches!(cfg.mode, Mode::History | Mode::HistoryMulti(_));
    loop {
        let start = results.len();
        let want_dump = cfg.dump && head.is_none();
        let (lines, end) = in_child(&cfg, |emit| {
            let loaded = guarded(|| load(&cfg, &text));
            let (db, p) = match loaded {
                Ok(Ok(x)) => x,
                Ok(Err(e)) => { emit(Sexp::App("ProgramError".into(), vec![Sexp::Str(e)]).to_string()); return; }
                Err(m) => { emit(Sexp::App("ProgramError".into(), vec![Sexp::Str(format!("panic: {}", m))]).to_string()); return; }
            };
            tls::set_current_program(&p, || {
                let h = if want_dump { guarded(|| dump_program(&p)).unwrap_or_else(|m| Sexp::App("DumpPanic".into(), vec![Sexp::Str(m)])) } else { Sexp::atom("NoDump") };
                emit(h.to_string());
                let mut shared = cfg.solver.into_solver();
                for (off, g) in goals[start..].iter().enumerate() {
                    set_cpu_limit(cfg.cpu);
                    if history {
                        // HistoryMulti: step i decides between solve and solve_multiple, same solver
                        let step_mode = match &cfg.mode {
                            Mode::HistoryMulti(steps) => match steps.get(start + off) {
                                Some(Some(k)) => Mode::Multiple(*k),
                                _ => Mode::History,
                            },
                            m => m.clone(),
                        };
                        emit(solve_one(&db, &p, &mut shared, &step_mode, g).to_string());
                    } else {
                        let mut solver = cfg.solver.into_solver();
                        emit(solve_one(&db, &p, &mut solver, &cfg.mode, g).to_string());
                    }
                }
            });
        });
        let first = match lines.first() {
            Some(l) => parse(l)?,
            None => return Ok(Sexp::App("ProgramError".into(), vec![Sexp::Str(format!("lowering died: {}", end_sexp(&end)))])),
        };
        if first.head() == Some("ProgramError") { return Ok(first); }
        if head.is_none() { head = Some(first); }
        for l in &lines[1..] { if results.len() < n { results.push(parse(l)?); } }
        if results.len() >= n { break; }
        // the child died while working on goal number results.len()
        results.push(Sexp::App("R".into(), vec![Sexp::List(vec![]), end_sexp(&end)]));
        if history {
            while results.len() < n { results.push(Sexp::App("R".into(), vec![Sexp::List(vec![]), Sexp::atom("Skipped")])); }
        }
        if results.len() >= n { break; }
    }
    let head = head.unwrap_or(Sexp::atom("NoDump"));
    Ok(Sexp::App("Result".into(), vec![head, Sexp::List(results)]))
}

fn main() {
    install_quiet_panic_hook();
    // warm-up: pay one-time lazy initialisations (lexer tables, tracing callsites ...) in the
    // parent so that the forked children do not repeat them
    let _ = guarded(|| {
        let wcfg = Cfg { solver: SolverChoice::slg_default(), mode: Mode::Fresh, checked: false, dump: false, cpu: 10, stack_mb: 8, mem_mb: 4096 };
        if let Ok((db, p)) = load(&wcfg, "struct WarmS<T> {} struct WarmZ {} trait WarmT {} impl WarmT for WarmZ {} impl<T> WarmT for WarmS<T> where T: WarmT {}") {
            tls::set_current_program(&p, || {
                for sc in [SolverChoice::slg_default(), SolverChoice::recursive_default()] {
                    let mut solver = sc.into_solver();
                    let _ = solve_one(&db, &p, &mut solver, &Mode::Fresh, "exists<A> { WarmS<A>: WarmT }");
                    let _ = solve_one(&db, &p, &mut solver, &Mode::Fresh, "forall<A> { if (A: WarmT) { not { WarmS<A>: WarmT } } }");
                }
            });
        }
    });
    let stdin = std::io::stdin();
    // read all input first: forked children must not share a half-consumed stdin buffer
    let mut input = String::new();
    let _ = stdin.lock().read_to_string(&mut input);
    let _ = (&input as &str).lines().count();
    for line in input.lines() {
        if line.trim().is_empty() { continue; }
        let out = match parse(line) {
            Err(e) => Sexp::App("BadInput".into(), vec![Sexp::Str(e)]),
            Ok(case) => match guarded(|| run_case(&case)) {
                Ok(Ok(r)) => r,
                Ok(Err(e)) => Sexp::App("BadInput".into(), vec![Sexp::Str(e)]),
                Err(p) => Sexp::App("Panic".into(), vec![Sexp::Str(p)]),
            },
        };
        let stdout = std::io::stdout();
        let mut o = stdout.lock();
        let _ = writeln!(o, "{}", out);
        let _ = o.flush();
    }
    let _ = std::io::stdin().lock().lines().count();
}
