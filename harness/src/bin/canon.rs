//! Canonicalization family (C16, C28): the real `InferenceTable` canonicalization layer and the
//! real solvers' answers, in the shared term syntax.
//!
//! `canon canon` — one case per line:
//!   case   ::= (Case [<op> ...] <term>)
//!   op     ::= NewUniverse | (NewVar u) | (Relate a b)          a, b generic arguments (Invariant)
//!   term   ::= any term of the shared syntax, or (Node HList [generic args]) = a Substitution
//!   result ::= (R (Table maxu [(Pair root (Unbound u) | (Bound tm)) ...]) [opres ...]
//!                 <canon> <ucanon> <back> <recanon> <invert>)
//!   canon  ::= (Canon [(Pair kind u) ...] value [(Pair kind var) ...]) | (Panic "..")
//!   ucanon ::= (UCanon n [(Pair kind u) ...] value [universes ...] [to ...] [from ...]) | (Panic "..") | Skipped
//!   back   ::= (Back [(Pair kind u) ...] value) | (Panic "..") | Skipped        map_from_canonical
//!   recanon::= (Canon binders value frees)                                      instantiate_canonical + canonicalize
//!   invert ::= (Invert None | (Some [(Pair kind u)] value)) | (Panic "..")     invert_then_canonicalize
//!
//! `canon answers` — one case per line:
//!   case   ::= (Case "<program>" ["<goal>" ...] k cpu_secs)
//!   result ::= (Res [<goalres> ...]) | (ProgramError "..")
//!   goalres::= (G (Query nuniverses [(Pair kind u) ...] value) [<ans> ...]) | (GoalError "..") | (GoalDied "why")
//! One forked child per program (CPU limit per goal, 64 MB stack); a child that dies is replaced.
//!   ans    ::= (Ans "<source>" [(Pair kind u) ...] [subst terms ...] <applied>) | (NoAns "<source>" <why>)
//!   applied::= (Applied tm) | (Panic "..")          Substitution::apply(query value) under catch_unwind
//! The query value (an `InEnvironment<Goal>`) is rendered as `Node HImplies [HList env; goal]`.
use chalk_integration::db::ChalkDatabase;
use chalk_integration::interner::ChalkIr;
use chalk_integration::lowering::lower_goal;
use chalk_integration::query::LoweringDatabase;
use chalk_integration::{tls, SolverChoice};
use chalk_ir::fold::TypeFoldable;
use chalk_ir::interner::HasInterner;
use chalk_ir::visit::TypeVisitable;
use chalk_ir::*;
use chalk_solve::ext::GoalExt;
use chalk_solve::infer::ucanonicalize::UniverseMapExt;
use chalk_solve::infer::InferenceTable;
use chalk_solve::{Guidance, Solution, SubstitutionResult};
use std::io::Read;
use vh::batch::{guarded, install_quiet_panic_hook, panic_sexp};
use vh::ir::*;
use vh::sexp::{parse, Sexp};

const I: ChalkIr = ChalkIr;

#[derive(Debug)]
struct Variances8;
impl UnificationDatabase<ChalkIr> for Variances8 {
    fn fn_def_variance(&self, _: FnDefId<ChalkIr>) -> Variances<ChalkIr> { Variances::from_iter(I, std::iter::repeat(Variance::Invariant).take(8)) }
    fn adt_variance(&self, _: AdtId<ChalkIr>) -> Variances<ChalkIr> { Variances::from_iter(I, std::iter::repeat(Variance::Invariant).take(8)) }
}

fn pair(a: Sexp, b: Sexp) -> Sexp { Sexp::app("Pair", vec![a, b]) }
fn hlist(cs: Vec<Sexp>) -> Sexp { Sexp::app("Node", vec![Sexp::atom("HList"), Sexp::List(cs)]) }

fn binders_sx(b: &CanonicalVarKinds<ChalkIr>) -> Sexp {
    Sexp::List(b.iter(I).map(|k| pair(vkind_sx(&k.kind), Sexp::num(k.skip_kind().counter as u64))).collect())
}

// ---------------------------------------------------------------------------------------
// canon canon
// ---------------------------------------------------------------------------------------

fn dump_table(table: &InferenceTable<ChalkIr>) -> Sexp {
    let mut t = table.clone();
    let n = t.verif_num_vars();
    let mut entries = vec![];
    for v in 0..n {
        let var = InferenceVar::from(v as u32);
        let root = t.inference_var_root(var).index() as u64;
        let val = match t.probe_var(var) {
            Some(g) => Sexp::app("Bound", vec![garg_sx(&g)]),
            None => Sexp::app("Unbound", vec![Sexp::num(t.verif_universe_of_var(var).map(|u| u.counter).unwrap_or(0) as u64)]),
        };
        entries.push(pair(Sexp::num(root), val));
    }
    let maxu = t.clone().new_universe().counter as u64 - 1;
    Sexp::app("Table", vec![Sexp::num(maxu), Sexp::List(entries)])
}

fn stage(f: impl FnOnce() -> Sexp) -> Sexp {
    match guarded(f) { Ok(s) => s, Err(m) => panic_sexp(&m) }
}

fn stages<T>(table: &InferenceTable<ChalkIr>, t: T, sx: &dyn Fn(&T) -> Sexp) -> Vec<Sexp>
where
    T: TypeFoldable<ChalkIr> + TypeVisitable<ChalkIr> + HasInterner<Interner = ChalkIr> + Clone + std::fmt::Debug,
{
    let maxu = table.clone().new_universe().counter - 1;
    let frees_sx = |c: &[Sexp]| Sexp::List(c.to_vec());
    // canonicalize
    let mut canon_val: Option<Canonical<T>> = None;
    let canon = {
        let mut tb = table.clone();
        let tt = t.clone();
        match guarded(|| tb.canonicalize(I, tt)) {
            Ok(c) => {
                let frees: Vec<Sexp> = c.free_vars.iter().map(|v| { let iv: InferenceVar = (*v.skip_kind()).into(); pair(vkind_sx(&v.kind), Sexp::num(iv.index() as u64)) }).collect();
                let out = Sexp::app("Canon", vec![binders_sx(&c.quantified.binders), sx(&c.quantified.value), frees_sx(&frees)]);
                canon_val = Some(c.quantified);
                out
            }
            Err(m) => panic_sexp(&m),
        }
    };
    // u_canonicalize, map back, instantiate + re-canonicalize
    let (mut ucanon, mut back, mut recanon) = (Sexp::atom("Skipped"), Sexp::atom("Skipped"), Sexp::atom("Skipped"));
    if let Some(c) = &canon_val {
        match guarded(|| InferenceTable::u_canonicalize(I, c)) {
            Ok(u) => {
                let us: Vec<Sexp> = u.universes.universes.iter().map(|x| Sexp::num(x.counter as u64)).collect();
                let top = std::cmp::max(maxu, u.universes.universes.last().map(|x| x.counter).unwrap_or(0));
                let to: Vec<Sexp> = (0..=top + 2).map(|x| match u.universes.map_universe_to_canonical(UniverseIndex { counter: x }) {
                    Some(c) => Sexp::app("Some", vec![Sexp::num(c.counter as u64)]), None => Sexp::atom("None") }).collect();
                let from: Vec<Sexp> = (0..us.len() + 3).map(|x| Sexp::num(u.universes.map_universe_from_canonical(UniverseIndex { counter: x }).counter as u64)).collect();
                ucanon = Sexp::app("UCanon", vec![Sexp::num(u.quantified.universes as u64), binders_sx(&u.quantified.canonical.binders),
                    sx(&u.quantified.canonical.value), Sexp::List(us), Sexp::List(to), Sexp::List(from)]);
                back = stage(|| {
                    let b = u.universes.map_from_canonical(I, &u.quantified.canonical);
                    Sexp::app("Back", vec![binders_sx(&b.binders), sx(&b.value)])
                });
            }
            Err(m) => { ucanon = panic_sexp(&m); }
        }
        recanon = stage(|| {
            let mut tb = table.clone();
            let inst = tb.instantiate_canonical(I, c.clone());
            let c2 = tb.canonicalize(I, inst);
            let frees: Vec<Sexp> = c2.free_vars.iter().map(|v| { let iv: InferenceVar = (*v.skip_kind()).into(); pair(vkind_sx(&v.kind), Sexp::num(iv.index() as u64)) }).collect();
            Sexp::app("Canon", vec![binders_sx(&c2.quantified.binders), sx(&c2.quantified.value), Sexp::List(frees)])
        });
    }
    let invert = stage(|| {
        let mut tb = table.clone();
        match tb.invert_then_canonicalize(I, t.clone()) {
            None => Sexp::app("Invert", vec![Sexp::atom("None")]),
            Some(c) => Sexp::app("Invert", vec![Sexp::app("Some", vec![pair(binders_sx(&c.binders), sx(&c.value))])]),
        }
    });
    vec![canon, ucanon, back, recanon, invert]
}

fn subst_term_sx(s: &Substitution<ChalkIr>) -> Sexp { hlist(subst_sx(s)) }

fn is_hlist(s: &Sexp) -> bool {
    s.head() == Some("Node") && s.args().len() == 2 && s.args()[0].head() == Some("HList")
}

fn run_canon(case: &Sexp) -> Result<Sexp, String> {
    if case.head() != Some("Case") || case.args().len() != 2 { return Err("expected (Case [ops] term)".into()); }
    let a = case.args();
    let mut table: InferenceTable<ChalkIr> = InferenceTable::new();
    let db = Variances8;
    let env = Environment::new(I);
    let mut opres = vec![];
    for op in a[0].as_list()? {
        match op.head() {
            Some("NewUniverse") => { table.new_universe(); opres.push(Sexp::atom("U")); }
            Some("NewVar") => { table.new_variable(UniverseIndex { counter: op.args()[0].as_num()? as usize }); opres.push(Sexp::atom("V")); }
            Some("Relate") => {
                let x = to_garg(&op.args()[0])?;
                let y = to_garg(&op.args()[1])?;
                let r = guarded(|| table.relate(I, &db, &env, Variance::Invariant, &x, &y).is_ok());
                opres.push(match r { Ok(true) => Sexp::atom("Ok"), Ok(false) => Sexp::atom("Fail"), Err(_) => Sexp::atom("Panicked") });
            }
            _ => return Err(format!("bad op {}", op)),
        }
    }
    let dump = dump_table(&table);
    let term = &a[1];
    let outs = if is_hlist(term) {
        let s = to_subst(term.args()[1].as_list()?)?;
        stages(&table, s, &subst_term_sx)
    } else {
        match to_any(term)? {
            AnyTerm::Ty(t) => stages(&table, t, &ty_sx),
            AnyTerm::Lifetime(t) => stages(&table, t, &lifetime_sx),
            AnyTerm::Const(t) => stages(&table, t, &const_sx),
            AnyTerm::Goal(t) => stages(&table, t, &goal_sx),
            AnyTerm::Clause(t) => stages(&table, t, &clause_sx),
            AnyTerm::DomainGoal(t) => stages(&table, t, &domain_goal_sx),
            AnyTerm::WhereClause(t) => stages(&table, t, &wc_sx),
            AnyTerm::Qwc(t) => stages(&table, t, &qwc_sx),
            AnyTerm::TraitRef(t) => stages(&table, t, &trait_ref_sx),
        }
    };
    let mut v = vec![dump, Sexp::List(opres)];
    v.extend(outs);
    Ok(Sexp::app("R", v))
}

// ---------------------------------------------------------------------------------------
// canon answers
// ---------------------------------------------------------------------------------------
#[repr(C)]
struct RLimit { cur: u64, max: u64 }
extern "C" {
    fn fork() -> i32;
    fn pipe(fds: *mut i32) -> i32;
    fn close(fd: i32) -> i32;
    fn read(fd: i32, buf: *mut u8, n: usize) -> isize;
    fn write(fd: i32, buf: *const u8, n: usize) -> isize;
    fn waitpid(pid: i32, status: *mut i32, options: i32) -> i32;
    fn setrlimit(resource: i32, rlim: *const RLimit) -> i32;
    fn _exit(code: i32) -> !;
    fn clock_gettime(clk: i32, ts: *mut [i64; 2]) -> i32;
}
const RLIMIT_CPU: i32 = 0;
const RLIMIT_AS: i32 = 9;
const CLOCK_PROCESS_CPUTIME_ID: i32 = 2;

fn set_cpu_limit(secs_from_now: u64) {
    let l = RLimit { cur: cpu_seconds_used() + secs_from_now, max: u64::MAX };
    unsafe { setrlimit(RLIMIT_CPU, &l) };
}

fn cpu_seconds_used() -> u64 {
    let mut ts = [0i64; 2];
    unsafe { clock_gettime(CLOCK_PROCESS_CPUTIME_ID, &mut ts) };
    ts[0] as u64
}

/// Runs `f` in a forked child (CPU limit, address-space limit, 64 MB thread stack); returns the
/// complete lines the child wrote and a description of an abnormal end, if any.
fn in_child(cpu: u64, f: impl FnOnce(&mut dyn FnMut(String))) -> (Vec<String>, Option<String>) {
    let mut fds = [0i32; 2];
    if unsafe { pipe(fds.as_mut_ptr()) } != 0 { return (vec![], Some("pipe failed".into())); }
    let pid = unsafe { fork() };
    if pid < 0 { return (vec![], Some("fork failed".into())); }
    if pid == 0 {
        unsafe { close(fds[0]) };
        let wfd = fds[1];
        let lim = RLimit { cur: 4096 * 1024 * 1024, max: 4096 * 1024 * 1024 };
        unsafe { setrlimit(RLIMIT_AS, &lim) };
        set_cpu_limit(cpu);
        struct AssertSend<T>(T);
        unsafe impl<T> Send for AssertSend<T> {}
        let f = AssertSend(f);
        let r = std::thread::scope(|s| {
            std::thread::Builder::new().stack_size(64 * 1024 * 1024).spawn_scoped(s, move || {
                let f = f;
                let f = f.0;
                install_quiet_panic_hook();
                let mut emit = |line: String| {
                    let b = format!("{}\n", line).into_bytes();
                    let mut off = 0;
                    while off < b.len() {
                        let n = unsafe { write(wfd, b[off..].as_ptr(), b.len() - off) };
                        if n <= 0 { break; }
                        off += n as usize;
                    }
                };
                f(&mut emit);
            }).map(|h| h.join().is_ok()).unwrap_or(false)
        });
        unsafe { _exit(if r { 0 } else { 3 }) };
    }
    unsafe { close(fds[1]) };
    let mut data = Vec::new();
    let mut buf = [0u8; 65536];
    loop {
        let n = unsafe { read(fds[0], buf.as_mut_ptr(), buf.len()) };
        if n <= 0 { break; }
        data.extend_from_slice(&buf[..n as usize]);
    }
    unsafe { close(fds[0]) };
    let mut status = 0i32;
    unsafe { waitpid(pid, &mut status, 0) };
    let text = String::from_utf8_lossy(&data).to_string();
    let upto = text.rfind('\n').map(|i| i + 1).unwrap_or(0);
    let lines: Vec<String> = text[..upto].lines().map(|s| s.to_string()).collect();
    let sig = status & 0x7f;
    let end = if sig == 0 {
        let code = (status >> 8) & 0xff;
        if code == 0 { None } else { Some(format!("exit code {}", code)) }
    } else if sig == 24 || sig == 9 { Some("Timeout".into()) } else { Some(format!("signal {}", sig)) };
    (lines, end)
}

fn env_goal_sx(g: &InEnvironment<Goal<ChalkIr>>) -> Sexp {
    let env = hlist(g.environment.clauses.iter(I).map(clause_sx).collect());
    Sexp::app("Node", vec![Sexp::atom("HImplies"), Sexp::List(vec![env, goal_sx(&g.goal)])])
}

fn answer_sx(source: &str, q: &UCanonical<InEnvironment<Goal<ChalkIr>>>, binders: &CanonicalVarKinds<ChalkIr>, subst: &Substitution<ChalkIr>) -> Sexp {
    let applied = match guarded(|| subst.apply(q.canonical.value.clone(), I)) {
        Ok(v) => Sexp::app("Applied", vec![env_goal_sx(&v)]),
        Err(m) => panic_sexp(&m),
    };
    Sexp::app("Ans", vec![Sexp::string(source), binders_sx(binders), Sexp::List(subst_sx(subst)), applied])
}

fn no_ans(source: &str, why: Sexp) -> Sexp { Sexp::app("NoAns", vec![Sexp::string(source), why]) }

fn solution_sx(source: &str, q: &UCanonical<InEnvironment<Goal<ChalkIr>>>, sol: Option<Solution<ChalkIr>>) -> Sexp {
    match sol {
        None => no_ans(source, Sexp::atom("NoSolution")),
        Some(Solution::Unique(c)) => answer_sx(&format!("{}:Unique", source), q, &c.binders, &c.value.subst),
        Some(Solution::Ambig(Guidance::Definite(c))) => answer_sx(&format!("{}:Definite", source), q, &c.binders, &c.value),
        Some(Solution::Ambig(Guidance::Suggested(c))) => answer_sx(&format!("{}:Suggested", source), q, &c.binders, &c.value),
        Some(Solution::Ambig(Guidance::Unknown)) => no_ans(source, Sexp::atom("AmbigUnknown")),
    }
}

/// Runs in the forked child: lowers and peels the goal, runs the three solver configurations.
fn solve_goal(db: &ChalkDatabase, program: &std::sync::Arc<chalk_integration::program::Program>, goal_text: &str, k: usize) -> Sexp {
    let goal = match guarded(|| match chalk_parse::parse_goal(goal_text) {
        Err(e) => Err(format!("parse: {}", e)),
        Ok(g) => lower_goal(&*g, &**program).map_err(|e| format!("lower: {}", e)),
    }) {
        Ok(Ok(g)) => g,
        Ok(Err(e)) => return Sexp::app("GoalError", vec![Sexp::string(&e)]),
        Err(m) => return Sexp::app("GoalError", vec![Sexp::string(&format!("panic: {}", m))]),
    };
    let q = match guarded(|| tls::set_current_program(program, || goal.into_peeled_goal(I))) {
        Ok(q) => q,
        Err(m) => return Sexp::app("GoalError", vec![Sexp::string(&format!("peel panic: {}", m))]),
    };
    let query = Sexp::app("Query", vec![Sexp::num(q.universes as u64), binders_sx(&q.canonical.binders), env_goal_sx(&q.canonical.value)]);
    let mut answers = vec![];
    let runs: Vec<(&str, SolverChoice, bool)> = vec![
        ("slg", SolverChoice::slg_default(), false),
        ("rec", SolverChoice::recursive_default(), false),
        ("slg-multi", SolverChoice::slg_default(), true),
    ];
    for (name, choice, multi) in runs {
        let mut solver = choice.into_solver();
        let mut out: Vec<Sexp> = vec![];
        let r = guarded(|| {
            if !multi {
                let sol = solver.solve(db, &q);
                out.push(solution_sx(name, &q, sol));
            } else {
                let mut n = 0usize;
                solver.solve_multiple(db, &q, &mut |res, _next| {
                    n += 1;
                    out.push(match res {
                        SubstitutionResult::Definite(c) => answer_sx("slg-multi:Definite", &q, &c.binders, &c.value.subst),
                        SubstitutionResult::Ambiguous(c) => answer_sx("slg-multi:Ambiguous", &q, &c.binders, &c.value.subst),
                        SubstitutionResult::Floundered => no_ans("slg-multi", Sexp::atom("Floundered")),
                    });
                    n < k
                });
            }
        });
        answers.extend(out);
        if let Err(m) = r { answers.push(no_ans(name, panic_sexp(&m))); }
    }
    Sexp::app("G", vec![query, Sexp::List(answers)])
}

fn run_answers(case: &Sexp) -> Result<Sexp, String> {
    if case.head() != Some("Case") || case.args().len() != 4 { return Err("expected (Case program [goals] k cpu)".into()); }
    let a = case.args();
    let text = a[0].as_str()?.to_string();
    let goals: Vec<String> = a[1].as_list()?.iter().map(|g| g.as_str().map(|s| s.to_string())).collect::<Result<_, _>>()?;
    let k = a[2].as_num()? as usize;
    let cpu = a[3].as_num()?;
    // the programs of this family come from fixed templates: lowering runs in-process under catch_unwind
    let loaded = guarded(|| {
        let db = ChalkDatabase::with(&text, SolverChoice::slg_default());
        let p = db.program_ir();
        (db, p)
    });
    let (db, program) = match loaded {
        Ok((db, Ok(p))) => (db, p),
        Ok((_, Err(e))) => return Ok(Sexp::app("ProgramError", vec![Sexp::string(&format!("{}", e))])),
        Err(m) => return Ok(Sexp::app("ProgramError", vec![Sexp::string(&format!("panic: {}", m))])),
    };
    // one child per program; when it dies (CPU limit, stack overflow, abort) the goal it was working on
    // is reported as (GoalDied why) and a new child continues with the next goal
    let n = goals.len();
    let mut res: Vec<Sexp> = Vec::with_capacity(n);
    while res.len() < n {
        let start = res.len();
        let (lines, end) = in_child(cpu, |emit| {
            tls::set_current_program(&program, || {
                for g in &goals[start..] {
                    set_cpu_limit(cpu);
                    emit(solve_goal(&db, &program, g, k).to_string());
                }
            });
        });
        for l in &lines { if res.len() < n { res.push(parse(l).unwrap_or_else(|e| Sexp::app("GoalDied", vec![Sexp::string(&e)]))); } }
        if res.len() < n {
            res.push(Sexp::app("GoalDied", vec![Sexp::string(&end.unwrap_or_else(|| "child ended early".into()))]));
        }
    }
    Ok(Sexp::app("Res", vec![Sexp::List(res)]))
}

fn warm_up() {
    // pay one-time lazy initialisations (lexer tables, tracing callsites ...) in the parent so
    // that the forked children do not repeat them
    let _ = guarded(|| {
        let db = ChalkDatabase::with("struct WarmS<T> {} struct WarmZ {} trait WarmT {} impl WarmT for WarmZ {} impl<T> WarmT for WarmS<T> where T: WarmT {}", SolverChoice::slg_default());
        if let Ok(p) = db.program_ir() {
            for g in ["exists<A> { WarmS<A>: WarmT }", "forall<A> { if (A: WarmT) { not { WarmS<A>: WarmT } } }"] {
                if let Ok(pg) = chalk_parse::parse_goal(g) {
                    if let Ok(goal) = lower_goal(&*pg, &*p) {
                        tls::set_current_program(&p, || {
                            let q = goal.into_peeled_goal(I);
                            for sc in [SolverChoice::slg_default(), SolverChoice::recursive_default()] {
                                let mut solver = sc.into_solver();
                                let _ = solver.solve(&db, &q);
                                let _ = solver.solve_multiple(&db, &q, &mut |_, _| false);
                            }
                        });
                    }
                }
            }
        }
    });
}

fn main() {
    let mode = std::env::args().nth(1).unwrap_or_else(|| "canon".into());
    if mode == "canon" {
        vh::batch::run_batch(run_canon);
        return;
    }
    install_quiet_panic_hook();
    warm_up();
    // read all input first: forked children must not share a half-consumed stdin buffer
    let mut input = String::new();
    let _ = std::io::stdin().lock().read_to_string(&mut input);
    for line in input.lines() {
        if line.trim().is_empty() { continue; }
        let out = match parse(line) {
            Err(e) => Sexp::app("BadInput", vec![Sexp::string(&e)]),
            Ok(case) => match guarded(|| run_answers(&case)) {
                Ok(Ok(r)) => r,
                Ok(Err(e)) => Sexp::app("BadInput", vec![Sexp::string(&e)]),
                Err(p) => panic_sexp(&p),
            },
        };
        use std::io::Write;
        let stdout = std::io::stdout();
        let mut o = stdout.lock();
        let _ = writeln!(o, "{}", out);
        let _ = o.flush();
    }
}
