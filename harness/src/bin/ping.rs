//! Smoke test of the batch protocol: echoes each case; `(Boom)` panics.
use vh::sexp::Sexp;
fn main() {
    vh::batch::run_batch(|c| {
        if c.head() == Some("Boom") { panic!("boom requested"); }
        Ok(Sexp::app("Echo", vec![c.clone()]))
    });
}
