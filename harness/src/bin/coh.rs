//! C19 family: coherence checking (overlap / specialization priorities) of a `.chalk` program.
//!
//! Sub-command `run` (or `core`: only <whole> per solver, no traits, no tables).  Case: `(Case "<program text>" <depth> <max_refs>)`.
//! Result (one line):
//!   (Res LowerOk [ (S <solver> <whole> [ <trait> ... ]) ... ] [ (A "Name" <applies>) ... ])
//!   (Res (LowerErr "msg") [] [])
//! with
//!   <whole>  ::= WAccepted | (WError Overlap|Orphan|Other) | (WPanic "msg")      -- `db.coherence()`
//!   <trait>  ::= (T "Name" <marker:bool> [<positive:bool> per impl]
//!                   <out> <disj> <spec>)
//!   <out>    ::= (Accepted [(P <impl> <prio>) ...]) | (Error Overlap|Orphan) | (Panic "msg")
//!                 -- `CoherenceSolver::specialization_priorities`; impls without an entry are omitted
//!   <disj>   ::= [[e ...] ...]   n*n, entry (i,j) for i<j is `disjoint(impl_i, impl_j)`, else 3
//!   <spec>   ::= [[e ...] ...]   n*n, entry (i,j), i<>j, is `specializes(less = i, more = j)`, else 3
//!                 e: 0 false, 1 true, 2 the hook call panicked, 3 not applicable
//!   <applies>::= Skipped | (Refs [ (R "trait ref" [a ...]) ... ])    a: 0 no, 1 yes, 2 ambiguous/panic
//! Impls are numbered per trait in program order (0-based), never by internal id.
//! Sub-command `orphan` (C20): see `orphan_case`.
use chalk_integration::db::ChalkDatabase;
use chalk_integration::interner::ChalkIr;
use chalk_integration::program::Program;
use chalk_integration::query::LoweringDatabase;
use chalk_integration::{tls, SolverChoice};
use chalk_ir::cast::Cast;
use chalk_ir::*;
use chalk_solve::coherence::{CoherenceError, CoherenceSolver};
use chalk_solve::ext::GoalExt;
use chalk_solve::rust_ir::ImplType;
use chalk_solve::Solution;
use std::sync::Arc;
use vh::batch::{guarded, run_batch};
use vh::sexp::Sexp;

fn tri(r: Result<bool, String>) -> Sexp {
    Sexp::num(match r {
        Ok(false) => 0,
        Ok(true) => 1,
        Err(_) => 2,
    })
}

/// All types of nesting depth <= `depth` over the program's ADTs (type parameters only),
/// smallest first, truncated to `cap` entries.
fn universe(program: &Program, depth: u64, cap: usize) -> Option<Vec<Ty<ChalkIr>>> {
    let interner = ChalkIr;
    let mut adts: Vec<(AdtId<ChalkIr>, usize)> = Vec::new();
    for (id, datum) in &program.adt_data {
        let kinds = datum.binders.binders.as_slice(interner);
        if !kinds.iter().all(|k| matches!(k, VariableKind::Ty(_))) {
            return None;
        }
        adts.push((*id, kinds.len()));
    }
    let mut all: Vec<Ty<ChalkIr>> = Vec::new();
    let mut prev: Vec<Ty<ChalkIr>> = Vec::new();
    for _ in 0..depth {
        let mut next: Vec<Ty<ChalkIr>> = Vec::new();
        for &(id, arity) in &adts {
            // every argument tuple over `all` that uses at least one type of the previous level
            // (or none at all, for arity 0 on the first level)
            if arity == 0 {
                if all.is_empty() && prev.is_empty() {
                    next.push(TyKind::Adt(id, Substitution::empty(interner)).intern(interner));
                }
                continue;
            }
            if all.is_empty() {
                continue;
            }
            let n = all.len();
            let mut idx = vec![0usize; arity];
            loop {
                let fresh = idx.iter().any(|&i| prev.iter().any(|p| *p == all[i]));
                if fresh {
                    let subst = Substitution::from_iter(interner, idx.iter().map(|&i| all[i].clone()));
                    next.push(TyKind::Adt(id, subst).intern(interner));
                }
                let mut k = 0;
                while k < arity {
                    idx[k] += 1;
                    if idx[k] < n {
                        break;
                    }
                    idx[k] = 0;
                    k += 1;
                }
                if k == arity || all.len() + next.len() > cap {
                    break;
                }
            }
        }
        if next.is_empty() {
            break;
        }
        all.extend(next.iter().cloned());
        prev = next;
        if all.len() >= cap {
            all.truncate(cap);
            break;
        }
    }
    Some(all)
}

fn err_kind(e: &CoherenceError<ChalkIr>) -> Sexp {
    Sexp::app(
        "Error",
        vec![Sexp::atom(match e {
            CoherenceError::OverlappingImpls(_) => "Overlap",
            CoherenceError::FailedOrphanCheck(_) => "Orphan",
        })],
    )
}

fn one_solver(text: &str, name: &str, choice: SolverChoice, full: bool) -> Sexp {
    let interner = ChalkIr;
    let db = ChalkDatabase::with(text, choice);
    let program: Arc<Program> = match db.program_ir() {
        Ok(p) => p,
        Err(e) => return Sexp::app("LowerErr", vec![Sexp::string(&format!("{}", e))]),
    };

    // whole-program query
    let whole = match guarded(|| db.coherence()) {
        Ok(Ok(_)) => Sexp::atom("WAccepted"),
        Ok(Err(e)) => {
            let s = format!("{}", e);
            let k = if s.contains("overlapping impls") {
                "Overlap"
            } else if s.contains("orphan rules") {
                "Orphan"
            } else {
                "Other"
            };
            Sexp::app("WError", vec![Sexp::atom(k)])
        }
        Err(p) => Sexp::app("WPanic", vec![Sexp::string(&p)]),
    };

    let mut traits = Vec::new();
    if !full {
        return Sexp::app("S", vec![Sexp::atom(name), whole, Sexp::list(traits)]);
    }
    tls::set_current_program(&program, || {
        let solver_builder = || choice.into_solver();
        for (&trait_id, trait_datum) in &program.trait_data {
            // impls of this trait in program order
            let mut impls: Vec<ImplId<ChalkIr>> = program
                .impl_data
                .iter()
                .filter(|(_, d)| d.trait_id() == trait_id && d.impl_type == ImplType::Local)
                .map(|(&id, _)| id)
                .collect();
            impls.sort();
            let n = impls.len();
            let tname = format!("{:?}", trait_id);
            let positive: Vec<Sexp> = impls
                .iter()
                .map(|&id| Sexp::boolean(program.impl_data[&id].is_positive()))
                .collect();
            let cs: CoherenceSolver<'_, ChalkIr> = CoherenceSolver::new(&db, &solver_builder, trait_id);

            // the real outcome
            let out = match guarded(|| cs.specialization_priorities()) {
                Ok(Ok(pr)) => {
                    let mut ps = Vec::new();
                    for (i, &id) in impls.iter().enumerate() {
                        if let Ok(p) = guarded(|| pr.priority(id)) {
                            // SpecializationPriority is an opaque newtype over usize: read the
                            // number off its Debug rendering.
                            let s = format!("{:?}", p);
                            let digits: String = s.chars().filter(|c| c.is_ascii_digit()).collect();
                            let v: u64 = digits.parse().unwrap_or(u64::MAX);
                            ps.push(Sexp::app("P", vec![Sexp::num(i as u64), Sexp::num(v)]));
                        }
                    }
                    Sexp::app("Accepted", vec![Sexp::list(ps)])
                }
                Ok(Err(e)) => err_kind(&e),
                Err(p) => Sexp::app("Panic", vec![Sexp::string(&p)]),
            };

            // the oracle matrices, computed by the same functions the loop calls
            let mut disj = Vec::new();
            let mut spec = Vec::new();
            for i in 0..n {
                let mut drow = Vec::new();
                let mut srow = Vec::new();
                for j in 0..n {
                    if i < j {
                        drow.push(tri(guarded(|| cs.verif_disjoint(impls[i], impls[j]))));
                    } else {
                        drow.push(Sexp::num(3));
                    }
                    if i != j {
                        srow.push(tri(guarded(|| cs.verif_specializes(impls[i], impls[j]))));
                    } else {
                        srow.push(Sexp::num(3));
                    }
                }
                disj.push(Sexp::list(drow));
                spec.push(Sexp::list(srow));
            }

            traits.push(Sexp::app(
                "T",
                vec![
                    Sexp::string(&tname),
                    Sexp::boolean(trait_datum.flags.marker),
                    Sexp::list(positive),
                    out,
                    Sexp::list(disj),
                    Sexp::list(spec),
                ],
            ));
        }
    });
    Sexp::app("S", vec![Sexp::atom(name), whole, Sexp::list(traits)])
}

/// Does impl `id` apply to the concrete trait reference with arguments `args`?  Asked of both
/// real solvers as `exists<impl params> { header = args, where-clauses }`; 1 yes, 0 no,
/// 2 when they disagree / are ambiguous / panic.
fn impl_applies(db: &ChalkDatabase, program: &Program, id: ImplId<ChalkIr>, args: &[Ty<ChalkIr>]) -> u64 {
    let interner = ChalkIr;
    let datum = &program.impl_data[&id];
    let (binders, bound) = datum.binders.as_ref().into();
    let mut goals: Vec<Goal<ChalkIr>> = Vec::new();
    for (a, t) in bound.trait_ref.substitution.as_slice(interner).iter().zip(args.iter()) {
        let b: GenericArg<ChalkIr> = t.clone().cast(interner);
        goals.push(GoalData::EqGoal(EqGoal { a: a.clone(), b }).intern(interner));
    }
    for wc in bound.where_clauses.iter() {
        goals.push(wc.clone().cast(interner));
    }
    let goal = Goal::all(interner, goals)
        .quantify(interner, QuantifierKind::Exists, binders)
        .into_closed_goal(interner);
    let mut verdict = None;
    for choice in [SolverChoice::slg_default(), SolverChoice::recursive_default()] {
        let v = match guarded(|| choice.into_solver().solve(db, &goal)) {
            Ok(Some(Solution::Unique(_))) => 1,
            Ok(None) => 0,
            _ => 2,
        };
        match verdict {
            None => verdict = Some(v),
            Some(w) if w == v => {}
            Some(_) => return 2,
        }
    }
    verdict.unwrap_or(2)
}

/// (A "Trait" Skipped) | (A "Trait" (Refs [(R "args" [a ...]) ...]))
fn applies_tables(text: &str, depth: u64, max_refs: usize) -> Vec<Sexp> {
    let interner = ChalkIr;
    let db = ChalkDatabase::with(text, SolverChoice::slg_default());
    let program: Arc<Program> = match db.program_ir() {
        Ok(p) => p,
        Err(_) => return vec![],
    };
    let uni = universe(&program, depth, 64);
    let mut out = Vec::new();
    tls::set_current_program(&program, || {
        for (&trait_id, trait_datum) in &program.trait_data {
            let mut impls: Vec<ImplId<ChalkIr>> = program
                .impl_data
                .iter()
                .filter(|(_, d)| d.trait_id() == trait_id && d.impl_type == ImplType::Local)
                .map(|(&id, _)| id)
                .collect();
            impls.sort();
            let tname = format!("{:?}", trait_id);
            let kinds = trait_datum.binders.binders.as_slice(interner);
            let arity = kinds.len();
            let all_ty = kinds.iter().all(|k| matches!(k, VariableKind::Ty(_)));
            let table = match &uni {
                Some(u) if all_ty && !u.is_empty() && impls.len() >= 2 => {
                    let mut refs = Vec::new();
                    let m = u.len();
                    let mut idx = vec![0usize; arity];
                    loop {
                        if refs.len() >= max_refs {
                            break;
                        }
                        let args: Vec<Ty<ChalkIr>> = idx.iter().map(|&i| u[i].clone()).collect();
                        let row: Vec<Sexp> = impls
                            .iter()
                            .map(|&id| Sexp::num(impl_applies(&db, &program, id, &args)))
                            .collect();
                        let label = args.iter().map(|t| format!("{:?}", t)).collect::<Vec<_>>().join(", ");
                        refs.push(Sexp::app("R", vec![Sexp::string(&label), Sexp::list(row)]));
                        let mut k = 0;
                        while k < arity {
                            idx[k] += 1;
                            if idx[k] < m {
                                break;
                            }
                            idx[k] = 0;
                            k += 1;
                        }
                        if k == arity {
                            break;
                        }
                    }
                    Sexp::app("Refs", vec![Sexp::list(refs)])
                }
                _ => Sexp::atom("Skipped"),
            };
            out.push(Sexp::app("A", vec![Sexp::string(&tname), table]));
        }
    });
    out
}

/// C20: `perform_orphan_check` for every local impl (program order), with both solvers.
///   (Orph [(I <idx> "<trait>" <slg> <rec>) ...])   result: Allowed | Rejected | (Panic "msg")
///   (Orph (LowerErr "msg"))
fn orphan_case(text: &str) -> Sexp {
    use chalk_solve::coherence::orphan::perform_orphan_check;
    let db = ChalkDatabase::with(text, SolverChoice::slg_default());
    let program: Arc<Program> = match db.program_ir() {
        Ok(p) => p,
        Err(e) => return Sexp::app("Orph", vec![Sexp::app("LowerErr", vec![Sexp::string(&format!("{}", e))])]),
    };
    let mut rows = Vec::new();
    tls::set_current_program(&program, || {
        let mut impls: Vec<ImplId<ChalkIr>> = program
            .impl_data
            .iter()
            .filter(|(_, d)| d.impl_type == ImplType::Local)
            .map(|(&id, _)| id)
            .collect();
        impls.sort();
        for (i, &id) in impls.iter().enumerate() {
            let mut cols = vec![
                Sexp::num(i as u64),
                Sexp::string(&format!("{:?}", program.impl_data[&id].trait_id())),
            ];
            for choice in [SolverChoice::slg_default(), SolverChoice::recursive_default()] {
                let r = guarded(|| {
                    let mut solver = choice.into_solver();
                    perform_orphan_check::<ChalkIr>(&db, &mut *solver, id)
                });
                cols.push(match r {
                    Ok(Ok(())) => Sexp::atom("Allowed"),
                    Ok(Err(_)) => Sexp::atom("Rejected"),
                    Err(p) => Sexp::app("Panic", vec![Sexp::string(&p)]),
                });
            }
            rows.push(Sexp::app("I", cols));
        }
    });
    Sexp::app("Orph", vec![Sexp::list(rows)])
}

/// C20: single goals.  Case `(Goals "<program>" ["<goal>" ...])`; result
///   (GoalsRes [(G <slg> <rec>) ...])  each: Yes (unique) | No | Amb | (Panic "m") | (Err "m")
fn goals_case(case: &Sexp) -> Result<Sexp, String> {
    use chalk_integration::lowering::lower_goal;
    let text = case.args()[0].as_str()?.to_string();
    let goals = case.args()[1].as_list()?;
    let db = ChalkDatabase::with(&text, SolverChoice::slg_default());
    let program: Arc<Program> = match db.program_ir() {
        Ok(p) => p,
        Err(e) => return Ok(Sexp::app("GoalsRes", vec![Sexp::app("LowerErr", vec![Sexp::string(&format!("{}", e))])])),
    };
    let mut rows = Vec::new();
    tls::set_current_program(&program, || -> Result<(), String> {
        for g in goals {
            let gt = g.as_str()?;
            let parsed = chalk_parse::parse_goal(gt).map_err(|e| format!("{}", e));
            let lowered = parsed.and_then(|p| lower_goal(&*p, &*program).map_err(|e| format!("{}", e)));
            let goal = match lowered {
                Ok(g) => g.into_peeled_goal(ChalkIr),
                Err(e) => {
                    rows.push(Sexp::app("G", vec![Sexp::app("Err", vec![Sexp::string(&e)]), Sexp::app("Err", vec![Sexp::string(&e)])]));
                    continue;
                }
            };
            let mut cols = Vec::new();
            for choice in [SolverChoice::slg_default(), SolverChoice::recursive_default()] {
                cols.push(match guarded(|| choice.into_solver().solve(&db, &goal)) {
                    Ok(Some(Solution::Unique(_))) => Sexp::atom("Yes"),
                    Ok(Some(Solution::Ambig(_))) => Sexp::atom("Amb"),
                    Ok(None) => Sexp::atom("No"),
                    Err(p) => Sexp::app("Panic", vec![Sexp::string(&p)]),
                });
            }
            rows.push(Sexp::app("G", cols));
        }
        Ok(())
    })?;
    Ok(Sexp::app("GoalsRes", vec![Sexp::list(rows)]))
}

fn main() {
    // `run`: everything; `core`: only the whole-program query `db.coherence()` per solver
    let sub = std::env::args().nth(1).unwrap_or_else(|| "run".to_string());
    let full = sub != "core";
    run_batch(|case| {
        if case.head() == Some("Goals") && case.args().len() == 2 {
            return goals_case(case);
        }
        if case.head() != Some("Case") || case.args().len() != 3 {
            return Err("expected (Case \"text\" depth max_refs)".to_string());
        }
        let text = case.args()[0].as_str()?.to_string();
        let depth = case.args()[1].as_num()?;
        let max_refs = case.args()[2].as_num()? as usize;
        if sub == "orphan" {
            return Ok(orphan_case(&text));
        }
        let a = one_solver(&text, "slg", SolverChoice::slg_default(), full);
        if a.head() == Some("LowerErr") {
            return Ok(Sexp::app("Res", vec![a, Sexp::list(vec![]), Sexp::list(vec![])]));
        }
        let b = one_solver(&text, "recursive", SolverChoice::recursive_default(), full);
        let accepted = |s: &Sexp| s.args().get(1).map(|w| w.head() == Some("WAccepted")).unwrap_or(false);
        let tables = if full && (accepted(&a) || accepted(&b)) { applies_tables(&text, depth, max_refs) } else { vec![] };
        Ok(Sexp::app("Res", vec![Sexp::atom("LowerOk"), Sexp::list(vec![a, b]), Sexp::list(tables)]))
    });
}
