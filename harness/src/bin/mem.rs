//! C27 driver: runs the real `fallible_map_vec` / `fallible_map_box` (hook H1) on
//! drop-logging element types and prints what can be observed of the run, in the event
//! vocabulary of `coq/Mem/InPlace.v` (`oevent`).
//!
//! stdin (sub-command `run`), one case per line:
//!   (Vec <variant> [id ...] <extra-capacity> <offset> <fail>)
//!   (Box <variant> <id> <offset> <fail>)
//!   <variant> ::= Same | Same4 | DiffSmall | DiffBig | DiffAlign | DiffAlignDown | Zst | Fold
//!   | PlainT | PlainU   (identical layout, exactly one side has drop glue: plain Copy data -> drop-logging, and converse)
//!   (DiffAlign: same size, align(T) < align(U); DiffAlignDown: same size, align(T) > align(U))
//!   (Fold: the functions are reached through the real `TypeFoldable::try_fold_with` impls of `Vec<T>` /
//!   `Box<T>` in boring_impls.rs, with an element type whose fold calls back into a scripted folder)
//!   <fail>    ::= NoFail | (FailAt <call-index> Err) | (FailAt <call-index> Panic)
//! stdout: (Log [ev ...]) with
//!   (OCall id) (ODrop ST|SU id) OBad ODealloc OHandOver (OReturn ROk|RErr|RPanic)
//!   (OResult len) (OBalance k)
//!
//! How things are observed (deterministic, single-threaded):
//!  * element drops: `Drop` impls push to a fixed-size static log; every element carries a
//!    type tag, and a drop that finds a wrong tag (type confusion, freed/poisoned or
//!    uninitialised memory) is logged as `OBad` instead;
//!  * the input buffer: a wrapping global allocator watches its address: the first release
//!    logs `ODealloc` (with layout check), poisons the bytes and (outside Miri) keeps the
//!    block in quarantine until the end of the case, so a second release is recognised
//!    reliably (`OBad`, not forwarded) and stale reads hit poison;
//!  * leaks: allocations minus deallocations over the whole case (input construction to
//!    disposal of the result and of the panic payload) is reported as `OBalance`.
//! The mapper signals a panic with `resume_unwind` (no panic hook, no message allocation).
use std::alloc::{GlobalAlloc, Layout, System};
use std::cell::UnsafeCell;
use std::panic::{catch_unwind, resume_unwind, AssertUnwindSafe};
use std::sync::atomic::{AtomicBool, AtomicUsize, Ordering::SeqCst};
use vh::sexp::Sexp;

// ---------------------------------------------------------------------------------------
// event log (no allocation: it is written from inside the allocator and from Drop impls)

const CAP: usize = 16384;
const K_CALL: u8 = 1;
const K_DROP_T: u8 = 2;
const K_DROP_U: u8 = 3;
const K_BAD: u8 = 4;
const K_DEALLOC: u8 = 5;
const K_HANDOVER: u8 = 6;
const K_RETURN: u8 = 7;
const K_RESULT: u8 = 8;
const K_BALANCE: u8 = 9;

struct Log(UnsafeCell<[(u8, u64); CAP]>);
unsafe impl Sync for Log {}
static LOG: Log = Log(UnsafeCell::new([(0, 0); CAP]));
static LOG_LEN: AtomicUsize = AtomicUsize::new(0);
static LOG_OVERFLOW: AtomicBool = AtomicBool::new(false);

fn push(kind: u8, val: u64) {
    let n = LOG_LEN.load(SeqCst);
    if n >= CAP {
        LOG_OVERFLOW.store(true, SeqCst);
        return;
    }
    unsafe {
        (*LOG.0.get())[n] = (kind, val);
    }
    LOG_LEN.store(n + 1, SeqCst);
}

fn log_reset() {
    LOG_LEN.store(0, SeqCst);
    LOG_OVERFLOW.store(false, SeqCst);
}

fn log_snapshot() -> Vec<(u8, u64)> {
    let n = LOG_LEN.load(SeqCst);
    let mut v = Vec::with_capacity(n + 1);
    for i in 0..n {
        v.push(unsafe { (*LOG.0.get())[i] });
    }
    if LOG_OVERFLOW.load(SeqCst) {
        v.push((K_BAD, 0));
    }
    v
}

// ---------------------------------------------------------------------------------------
// allocator wrapper

static COUNTING: AtomicBool = AtomicBool::new(false);
static ALLOCS: AtomicUsize = AtomicUsize::new(0);
static DEALLOCS: AtomicUsize = AtomicUsize::new(0);
static WATCH_PTR: AtomicUsize = AtomicUsize::new(0);
static WATCH_SIZE: AtomicUsize = AtomicUsize::new(0);
static WATCH_ALIGN: AtomicUsize = AtomicUsize::new(0);
static WATCH_FREED: AtomicUsize = AtomicUsize::new(0);
/// layout with which the quarantined block has to be given back eventually
static QUAR_SIZE: AtomicUsize = AtomicUsize::new(0);
static QUAR_ALIGN: AtomicUsize = AtomicUsize::new(0);

struct Watching;

unsafe impl GlobalAlloc for Watching {
    unsafe fn alloc(&self, l: Layout) -> *mut u8 {
        let p = System.alloc(l);
        if COUNTING.load(SeqCst) {
            ALLOCS.fetch_add(1, SeqCst);
        }
        let w = WATCH_PTR.load(SeqCst);
        if w != 0 && p as usize == w && WATCH_FREED.load(SeqCst) > 0 {
            // (only without quarantine) the address was handed out again: a later release of
            // it is legitimate, stop watching
            WATCH_PTR.store(0, SeqCst);
        }
        p
    }

    unsafe fn dealloc(&self, p: *mut u8, l: Layout) {
        if COUNTING.load(SeqCst) {
            DEALLOCS.fetch_add(1, SeqCst);
        }
        let w = WATCH_PTR.load(SeqCst);
        if w != 0 && p as usize == w {
            if WATCH_FREED.load(SeqCst) > 0 {
                // second release of the watched buffer
                WATCH_FREED.fetch_add(1, SeqCst);
                push(K_BAD, 1);
                if !cfg!(miri) {
                    return; // still in quarantine: do not corrupt the system heap
                }
            } else {
                if l.size() != WATCH_SIZE.load(SeqCst) || l.align() != WATCH_ALIGN.load(SeqCst) {
                    push(K_BAD, 2); // released with a layout it was not allocated with
                }
                WATCH_FREED.store(1, SeqCst);
                push(K_DEALLOC, 0);
                if !cfg!(miri) {
                    // poison with the size it was really allocated with, keep in quarantine
                    let n = WATCH_SIZE.load(SeqCst);
                    for i in 0..n {
                        std::ptr::write_volatile(p.add(i), 0xDD);
                    }
                    QUAR_SIZE.store(WATCH_SIZE.load(SeqCst), SeqCst);
                    QUAR_ALIGN.store(WATCH_ALIGN.load(SeqCst), SeqCst);
                    return;
                }
            }
        }
        System.dealloc(p, l)
    }
}

#[global_allocator]
static GLOBAL: Watching = Watching;

fn watch(p: usize, size: usize, align: usize) {
    WATCH_SIZE.store(size, SeqCst);
    WATCH_ALIGN.store(align, SeqCst);
    WATCH_FREED.store(0, SeqCst);
    QUAR_SIZE.store(0, SeqCst);
    WATCH_PTR.store(p, SeqCst);
}

/// Stop watching; give a quarantined block back to the system allocator.
fn unwatch() {
    let p = WATCH_PTR.swap(0, SeqCst);
    let size = QUAR_SIZE.swap(0, SeqCst);
    if p != 0 && size != 0 && WATCH_FREED.load(SeqCst) > 0 {
        unsafe {
            System.dealloc(p as *mut u8, Layout::from_size_align_unchecked(size, QUAR_ALIGN.load(SeqCst)));
        }
    }
}

// ---------------------------------------------------------------------------------------
// element types

const TAG_T: u32 = 0x7A11_E571;
const TAG_U: u32 = 0x0B5E_77ED;

trait Elem: Sized {
    fn make(id: u64) -> Self;
    /// id, or None when the tag is not the one of this type
    fn read(&self) -> Option<u64>;
    const DROP_KIND: u8;
    fn log_drop(&self) {
        match self.read() {
            Some(id) => push(Self::DROP_KIND, id),
            None => push(K_BAD, 3),
        }
    }
}

macro_rules! elem {
    ($name:ident, $kind:expr, { $($field:ident : $fty:ty),* }, $make:expr, $read:expr) => {
        #[allow(dead_code)]
        struct $name { $($field: $fty),* }
        impl Elem for $name {
            const DROP_KIND: u8 = $kind;
            fn make(id: u64) -> Self { let f: fn(u64) -> $name = $make; f(id) }
            fn read(&self) -> Option<u64> { let f: fn(&$name) -> Option<u64> = $read; f(self) }
        }
        impl Drop for $name { fn drop(&mut self) { self.log_drop() } }
    };
}

// 16 bytes, align 8
elem!(T16, K_DROP_T, { id: u64, tag: u64 },
      |id| T16 { id, tag: TAG_T as u64 }, |s| if s.tag == TAG_T as u64 { Some(s.id) } else { None });
elem!(U16, K_DROP_U, { id: u64, tag: u64 },
      |id| U16 { id, tag: TAG_U as u64 }, |s| if s.tag == TAG_U as u64 { Some(s.id) } else { None });
// 8 bytes, align 4
elem!(T8, K_DROP_T, { id: u32, tag: u32 },
      |id| T8 { id: id as u32, tag: TAG_T }, |s| if s.tag == TAG_T { Some(s.id as u64) } else { None });
elem!(U8, K_DROP_U, { id: u32, tag: u32 },
      |id| U8 { id: id as u32, tag: TAG_U }, |s| if s.tag == TAG_U { Some(s.id as u64) } else { None });
// 8 bytes, align 8 (same size as T8, other alignment)
elem!(U8A, K_DROP_U, { v: u64 },
      |id| U8A { v: ((TAG_U as u64) << 32) | (id & 0xFFFF_FFFF) },
      |s| if (s.v >> 32) as u32 == TAG_U { Some(s.v & 0xFFFF_FFFF) } else { None });
// 16 bytes, align 4 (same size as T16, LOWER alignment: storage of T16s is suitably aligned for it,
// but must still not be reused, because it would be released with another layout)
elem!(U16A4, K_DROP_U, { id: u32, tag: u32, pad: [u32; 2] },
      |id| U16A4 { id: id as u32, tag: TAG_U, pad: [0; 2] }, |s| if s.tag == TAG_U { Some(s.id as u64) } else { None });
// 32 bytes, align 8
elem!(U32B, K_DROP_U, { id: u64, tag: u64, pad: [u64; 2] },
      |id| U32B { id, tag: TAG_U as u64, pad: [0; 2] }, |s| if s.tag == TAG_U as u64 { Some(s.id) } else { None });
// plain data without drop glue, layout of T16 / U16 (16 bytes, align 8): nothing can be observed of
// their "drops"; the tag is still checked where the harness reads them (mapper argument, result)
#[derive(Clone, Copy)]
#[repr(C)]
struct PT16 { id: u64, tag: u64 }
impl Elem for PT16 {
    const DROP_KIND: u8 = K_DROP_T;
    fn make(id: u64) -> Self { PT16 { id, tag: TAG_T as u64 } }
    fn read(&self) -> Option<u64> { if self.tag == TAG_T as u64 { Some(self.id) } else { None } }
}
#[derive(Clone, Copy)]
#[repr(C)]
struct PU16 { id: u64, tag: u64 }
impl Elem for PU16 {
    const DROP_KIND: u8 = K_DROP_U;
    fn make(id: u64) -> Self { PU16 { id, tag: TAG_U as u64 } }
    fn read(&self) -> Option<u64> { if self.tag == TAG_U as u64 { Some(self.id) } else { None } }
}
// zero-sized
elem!(TZ, K_DROP_T, {}, |_| TZ {}, |_| Some(0));
elem!(UZ, K_DROP_U, {}, |_| UZ {}, |_| Some(0));

// ---------------------------------------------------------------------------------------
// drivers

#[derive(Clone, Copy, PartialEq)]
enum Mode { Err, Panic }

struct Stop; // panic payload (zero-sized: boxing it does not allocate)

fn map_one<T: Elem, U: Elem>(x: T, k: usize, off: u64, fail: Option<(usize, Mode)>) -> Result<U, ()> {
    let id = match x.read() {
        Some(id) => id,
        None => { push(K_BAD, 4); 0 }
    };
    push(K_CALL, id);
    if let Some((pos, mode)) = fail {
        if pos == k {
            match mode {
                Mode::Err => return Err(()),                 // `x` is dropped here
                Mode::Panic => resume_unwind(Box::new(Stop)), // `x` is dropped while unwinding
            }
        }
    }
    std::mem::forget(x); // the element lives on in the U
    Ok(U::make(id + off))
}

fn begin() {
    log_reset();
    ALLOCS.store(0, SeqCst);
    DEALLOCS.store(0, SeqCst);
    COUNTING.store(true, SeqCst);
}

fn end() {
    COUNTING.store(false, SeqCst);
    unwatch();
    let a = ALLOCS.load(SeqCst);
    let d = DEALLOCS.load(SeqCst);
    if d > a {
        push(K_BAD, 5); // more released than allocated
        push(K_BALANCE, 0);
    } else {
        push(K_BALANCE, (a - d) as u64);
    }
}

fn drive_vec<T: Elem, U: Elem>(ids: &[u64], extra: usize, off: u64, fail: Option<(usize, Mode)>) {
    begin();
    let mut v: Vec<T> = Vec::with_capacity(ids.len() + extra);
    for &id in ids {
        v.push(T::make(id));
    }
    let p = v.as_ptr() as usize;
    let cap = v.capacity();
    let heap = cap > 0 && std::mem::size_of::<T>() > 0;
    if heap {
        watch(p, cap * std::mem::size_of::<T>(), std::mem::align_of::<T>());
    }
    let mut k = 0usize;
    let r = catch_unwind(AssertUnwindSafe(|| {
        chalk_ir::fold::verif_fallible_map_vec(v, |x: T| {
            let i = k;
            k += 1;
            map_one::<T, U>(x, i, off, fail)
        })
    }));
    match r {
        Ok(Ok(res)) => {
            if heap && res.as_ptr() as usize == p && res.capacity() == cap {
                push(K_HANDOVER, 0);
            }
            push(K_RETURN, 0);
            push(K_RESULT, res.len() as u64);
            for e in res.iter() {
                if e.read().is_none() {
                    push(K_BAD, 6); // the result holds something that is not an initialised U
                }
            }
            drop(res);
        }
        Ok(Err(())) => push(K_RETURN, 1),
        Err(payload) => {
            push(K_RETURN, 2);
            drop(payload);
        }
    }
    end();
}

fn drive_box<T: Elem, U: Elem>(id: u64, off: u64, fail: Option<(usize, Mode)>) {
    begin();
    let b: Box<T> = Box::new(T::make(id));
    let p = &*b as *const T as usize;
    let heap = std::mem::size_of::<T>() > 0;
    if heap {
        watch(p, std::mem::size_of::<T>(), std::mem::align_of::<T>());
    }
    let r = catch_unwind(AssertUnwindSafe(|| {
        chalk_ir::fold::verif_fallible_map_box(b, |x: T| map_one::<T, U>(x, 0, off, fail))
    }));
    match r {
        Ok(Ok(res)) => {
            if heap && &*res as *const U as usize == p {
                push(K_HANDOVER, 0);
            }
            push(K_RETURN, 0);
            push(K_RESULT, 1);
            if res.read().is_none() {
                push(K_BAD, 6);
            }
            drop(res);
        }
        Ok(Err(())) => push(K_RETURN, 1),
        Err(payload) => {
            push(K_RETURN, 2);
            drop(payload);
        }
    }
    end();
}

// ---------------------------------------------------------------------------------------
// through `TypeFoldable for Vec<T>` / `Box<T>` (chalk-ir/src/fold/boring_impls.rs)

use chalk_integration::interner::ChalkIr;
use chalk_ir::fold::{FallibleTypeFolder, TypeFoldable};
use chalk_ir::{DebruijnIndex, InferenceVar, Ty, TyVariableKind};

static FOLD_OFF: AtomicUsize = AtomicUsize::new(0);

/// Folds to itself (`T = U`): an unmapped value carries TAG_T, a mapped one TAG_U.
#[derive(Debug)]
struct TF { id: u64, tag: u64 }

impl TF {
    fn read(&self) -> Option<(u8, u64)> {
        if self.tag == TAG_T as u64 { Some((K_DROP_T, self.id)) }
        else if self.tag == TAG_U as u64 { Some((K_DROP_U, self.id)) }
        else { None }
    }
}

impl Drop for TF {
    fn drop(&mut self) {
        match self.read() {
            Some((k, id)) => push(k, id),
            None => push(K_BAD, 3),
        }
    }
}

impl TypeFoldable<ChalkIr> for TF {
    fn try_fold_with<E>(
        self,
        folder: &mut dyn FallibleTypeFolder<ChalkIr, Error = E>,
        outer_binder: DebruijnIndex,
    ) -> Result<Self, E> {
        let id = match self.read() {
            Some((K_DROP_T, id)) => id,
            _ => { push(K_BAD, 4); 0 }
        };
        push(K_CALL, id);
        // the folder decides: Ok, Err (`self` dropped by `?`) or panic (`self` dropped while unwinding)
        let ty = folder.try_fold_inference_ty(InferenceVar::from(0u32), TyVariableKind::General, outer_binder)?;
        drop(ty);
        std::mem::forget(self);
        Ok(TF { id: id + FOLD_OFF.load(SeqCst) as u64, tag: TAG_U as u64 })
    }
}

struct Script { k: usize, fail: Option<(usize, Mode)> }

impl FallibleTypeFolder<ChalkIr> for Script {
    type Error = ();
    fn as_dyn(&mut self) -> &mut dyn FallibleTypeFolder<ChalkIr, Error = ()> { self }
    fn interner(&self) -> ChalkIr { ChalkIr }
    fn try_fold_inference_ty(&mut self, var: InferenceVar, kind: TyVariableKind, _: DebruijnIndex) -> Result<Ty<ChalkIr>, ()> {
        let i = self.k;
        self.k += 1;
        if let Some((pos, mode)) = self.fail {
            if pos == i {
                match mode {
                    Mode::Err => return Err(()),
                    Mode::Panic => resume_unwind(Box::new(Stop)),
                }
            }
        }
        Ok(var.to_ty(ChalkIr, kind))
    }
}

fn drive_vec_fold(ids: &[u64], extra: usize, off: u64, fail: Option<(usize, Mode)>) {
    FOLD_OFF.store(off as usize, SeqCst);
    begin();
    let mut v: Vec<TF> = Vec::with_capacity(ids.len() + extra);
    for &id in ids {
        v.push(TF { id, tag: TAG_T as u64 });
    }
    let p = v.as_ptr() as usize;
    let cap = v.capacity();
    let heap = cap > 0;
    if heap {
        watch(p, cap * std::mem::size_of::<TF>(), std::mem::align_of::<TF>());
    }
    let mut folder = Script { k: 0, fail };
    let r = catch_unwind(AssertUnwindSafe(|| v.try_fold_with(&mut folder, DebruijnIndex::INNERMOST)));
    match r {
        Ok(Ok(res)) => {
            if heap && res.as_ptr() as usize == p && res.capacity() == cap {
                push(K_HANDOVER, 0);
            }
            push(K_RETURN, 0);
            push(K_RESULT, res.len() as u64);
            drop(res);
        }
        Ok(Err(())) => push(K_RETURN, 1),
        Err(payload) => {
            push(K_RETURN, 2);
            drop(payload);
        }
    }
    end();
}

fn drive_box_fold(id: u64, off: u64, fail: Option<(usize, Mode)>) {
    FOLD_OFF.store(off as usize, SeqCst);
    begin();
    let b: Box<TF> = Box::new(TF { id, tag: TAG_T as u64 });
    let p = &*b as *const TF as usize;
    watch(p, std::mem::size_of::<TF>(), std::mem::align_of::<TF>());
    let mut folder = Script { k: 0, fail };
    let r = catch_unwind(AssertUnwindSafe(|| b.try_fold_with(&mut folder, DebruijnIndex::INNERMOST)));
    match r {
        Ok(Ok(res)) => {
            if &*res as *const TF as usize == p {
                push(K_HANDOVER, 0);
            }
            push(K_RETURN, 0);
            push(K_RESULT, 1);
            drop(res);
        }
        Ok(Err(())) => push(K_RETURN, 1),
        Err(payload) => {
            push(K_RETURN, 2);
            drop(payload);
        }
    }
    end();
}

// ---------------------------------------------------------------------------------------
// case syntax

fn parse_fail(s: &Sexp) -> Result<Option<(usize, Mode)>, String> {
    match s.head() {
        Some("NoFail") => Ok(None),
        Some("FailAt") => {
            let a = s.args();
            if a.len() != 2 { return Err("FailAt takes 2 arguments".into()); }
            let pos = a[0].as_num()? as usize;
            let mode = match a[1].head() {
                Some("Err") => Mode::Err,
                Some("Panic") => Mode::Panic,
                _ => return Err(format!("bad mode {}", a[1])),
            };
            Ok(Some((pos, mode)))
        }
        _ => Err(format!("bad fail spec {}", s)),
    }
}

fn render(log: &[(u8, u64)]) -> Sexp {
    let mut out = Vec::with_capacity(log.len());
    for &(k, v) in log {
        out.push(match k {
            K_CALL => Sexp::app("OCall", vec![Sexp::num(v)]),
            K_DROP_T => Sexp::app("ODrop", vec![Sexp::atom("ST"), Sexp::num(v)]),
            K_DROP_U => Sexp::app("ODrop", vec![Sexp::atom("SU"), Sexp::num(v)]),
            K_DEALLOC => Sexp::atom("ODealloc"),
            K_HANDOVER => Sexp::atom("OHandOver"),
            K_RETURN => Sexp::app("OReturn", vec![Sexp::atom(match v { 0 => "ROk", 1 => "RErr", _ => "RPanic" })]),
            K_RESULT => Sexp::app("OResult", vec![Sexp::num(v)]),
            K_BALANCE => Sexp::app("OBalance", vec![Sexp::num(v)]),
            _ => Sexp::atom("OBad"),
        });
    }
    Sexp::app("Log", vec![Sexp::list(out)])
}

fn run_case(c: &Sexp) -> Result<Sexp, String> {
    let a = c.args();
    match c.head() {
        Some("Vec") => {
            if a.len() != 5 { return Err("Vec takes 5 arguments".into()); }
            let variant = a[0].head().ok_or("variant")?.to_string();
            let ids: Vec<u64> = a[1].as_list()?.iter().map(|x| x.as_num()).collect::<Result<_, _>>()?;
            let extra = a[2].as_num()? as usize;
            let off = a[3].as_num()?;
            let fail = parse_fail(&a[4])?;
            match variant.as_str() {
                "Same" => drive_vec::<T16, U16>(&ids, extra, off, fail),
                "Same4" => drive_vec::<T8, U8>(&ids, extra, off, fail),
                "DiffSmall" => drive_vec::<T16, U8>(&ids, extra, off, fail),
                "DiffBig" => drive_vec::<T16, U32B>(&ids, extra, off, fail),
                "DiffAlign" => drive_vec::<T8, U8A>(&ids, extra, off, fail),
                "DiffAlignDown" => drive_vec::<T16, U16A4>(&ids, extra, off, fail),
                "Zst" => drive_vec::<TZ, UZ>(&ids, extra, off, fail),
                "PlainT" => drive_vec::<PT16, U16>(&ids, extra, off, fail),
                "PlainU" => drive_vec::<T16, PU16>(&ids, extra, off, fail),
                "Fold" => drive_vec_fold(&ids, extra, off, fail),
                v => return Err(format!("unknown variant {}", v)),
            }
        }
        Some("Box") => {
            if a.len() != 4 { return Err("Box takes 4 arguments".into()); }
            let variant = a[0].head().ok_or("variant")?.to_string();
            let id = a[1].as_num()?;
            let off = a[2].as_num()?;
            let fail = parse_fail(&a[3])?;
            match variant.as_str() {
                "Same" => drive_box::<T16, U16>(id, off, fail),
                "Same4" => drive_box::<T8, U8>(id, off, fail),
                "DiffSmall" => drive_box::<T16, U8>(id, off, fail),
                "DiffBig" => drive_box::<T16, U32B>(id, off, fail),
                "DiffAlign" => drive_box::<T8, U8A>(id, off, fail),
                "DiffAlignDown" => drive_box::<T16, U16A4>(id, off, fail),
                "Zst" => drive_box::<TZ, UZ>(id, off, fail),
                "PlainT" => drive_box::<PT16, U16>(id, off, fail),
                "PlainU" => drive_box::<T16, PU16>(id, off, fail),
                "Fold" => drive_box_fold(id, off, fail),
                v => return Err(format!("unknown variant {}", v)),
            }
        }
        _ => return Err(format!("unknown case {}", c)),
    }
    Ok(render(&log_snapshot()))
}

fn main() {
    let sub = std::env::args().nth(1).unwrap_or_default();
    match sub.as_str() {
        "run" => vh::batch::run_batch(run_case),
        "layouts" => {
            // the layout facts the variants rely on (checked by checks/c27.py)
            fn l<T>(name: &str) -> Sexp {
                Sexp::app("L", vec![Sexp::string(name), Sexp::num(std::mem::size_of::<T>() as u64),
                                    Sexp::num(std::mem::align_of::<T>() as u64), Sexp::num(std::mem::needs_drop::<T>() as u64)])
            }
            println!("{}", Sexp::app("Layouts", vec![Sexp::list(vec![
                l::<T16>("T16"), l::<U16>("U16"), l::<T8>("T8"), l::<U8>("U8"), l::<U8A>("U8A"), l::<U32B>("U32B"),
                l::<TZ>("TZ"), l::<UZ>("UZ"), l::<U16A4>("U16A4"), l::<PT16>("PT16"), l::<PU16>("PU16"), l::<TF>("TF")])]));
        }
        _ => {
            eprintln!("usage: mem run|layouts");
            std::process::exit(2);
        }
    }
}
